// C06 — well connection factors obey the Peaceman relation.
//
//  part a  single COMPDAT record, complete product of
//          direction x CF mode x Kh mode x diameter mode x r0 mode x skin x cell x unit system;
//          oracle: independent Peaceman calculation held in SI + own exact unit tables.
//  part b  explicit = computed: the stored CF / Kh / r0 of every case of (a) are fed back
//          explicitly (17 digits, deck units) in all 7 non-empty subsets; nothing may change.
//  part c  E2: all histories over 12 colliding events on one well (COMPDAT new / re-entry /
//          K-range, WPIMULT whole well / IJK / completion range, WELOPEN on connections,
//          COMPLUMP, DATES) up to depth 4 (quick) / 5 (thorough); per transition a frame
//          oracle on the library's own parent state and full agreement with a small
//          reference model of the connection list.
//
//  part d  input path: the record forms of (a) on a 4x4x2 grid whose cells differ pairwise in
//          DX/DY/DZ/PERM/NTG, wells in cells with I != J (both (i,j) and (j,i) occupied), the
//          record delivered (load) at load time, (actionx) inside an ACTIONX body applied with
//          Schedule::applyAction, (replay) at load time in a report step after an applyAction
//          call (re-evaluated tail of the SCHEDULE section); oracle of (a) against the
//          connection's OWN cell, plus: the other paths give exactly the load-time connection.
//
//  part e  one-item re-entries: a connection made by a base record is re-entered with a record that
//          differs in EXACTLY ONE item (direction, state, saturation table, diameter, skin, Kh, CF,
//          r0, D-factor), in the same report step or in the next one, on symmetric cells (cube with
//          isotropic permeability; DX=DY, PERMX=PERMY) and an anisotropic one; the targeted
//          connection must be the one of the NEW record at the re-entry step and at later steps,
//          the untargeted connection of the well stays bit-identical.
//
// Case strings (also accepted by --replay):
//   "e <unit> <layer> <dir> <form> <mutation> <timing>"          timing 0 same report step, 1 next report step
//   "d <unit> <dir> <shift> <path> <form>"                      path 0 load, 1 actionx, 2 replay, 3 actionx at step 1
//   "a <unit> <cell> <dir> <cf> <kh> <di> <r0> <sk> <v>"        indices into the alphabets below (v: explicit value set)
//   "b <unit> <cell> <dir> <cf> <kh> <di> <r0> <sk> <v> <mask>" mask bit0 CF, bit1 Kh, bit2 r0
//   "c <regime> e1 e2 ... en"                               last event is the checked transition
#include "vf.hpp"
#include <opm/input/eclipse/Deck/Deck.hpp>
#include <opm/input/eclipse/EclipseState/EclipseState.hpp>
#include <opm/input/eclipse/Parser/Parser.hpp>
#include <opm/input/eclipse/Python/Python.hpp>
#include <opm/input/eclipse/Schedule/Action/ActionResult.hpp>
#include <opm/input/eclipse/Schedule/Action/ActionX.hpp>
#include <opm/input/eclipse/Schedule/Action/Actions.hpp>
#include <opm/input/eclipse/Schedule/Action/SimulatorUpdate.hpp>
#include <opm/input/eclipse/Schedule/Schedule.hpp>
#include <opm/input/eclipse/Schedule/ScheduleState.hpp>
#include <opm/input/eclipse/Schedule/Well/Connection.hpp>
#include <opm/input/eclipse/Schedule/Well/Well.hpp>
#include <opm/input/eclipse/Schedule/Well/WellConnections.hpp>
#include <opm/common/OpmLog/OpmLog.hpp>
#include <cmath>
#include <memory>
#include <optional>

using namespace Opm;

static vf::Run* R;
static Parser* g_parser;
static std::shared_ptr<Python> g_python;

// ------------------------------------------------------------- units (own) ---
// Written from the definitions of the units, not from opm's Units.hpp.
namespace si {
    const double inch = 0.0254, ft = 0.3048, day = 86400.0, hour = 3600.0;
    const double bar = 1.0e5, atm = 101325.0;
    const double psi = 0.45359237 * 9.80665 / (0.0254 * 0.0254);        // lbf / in^2
    const double bbl = 42.0 * 231.0 * 0.0254 * 0.0254 * 0.0254;         // 42 US gallons of 231 in^3
    const double cP = 1.0e-3;
    const double darcy = 1.0e-3 * 1.0e-4 / 101325.0;                    // 1 cP * 1 cm^2 / (1 atm * 1 s)  [m^2]
    const double mD = 1.0e-3 * darcy;                                   // 9.869232667160130e-16 m^2
    const double two_pi = 6.283185307179586476925286766559;
}
struct Unit { const char* name; double len, cf, kh; };                  // SI value of one deck unit
static const std::vector<Unit>& units() {
    static const std::vector<Unit> u = {
        {"METRIC", 1.0,    si::cP * 1.0     / (si::day  * si::bar), si::mD * 1.0},      // cP.rm3/day/bar, mD.m
        {"FIELD",  si::ft, si::cP * si::bbl / (si::day  * si::psi), si::mD * si::ft},   // cP.rb/day/psi,  mD.ft
        {"LAB",    0.01,   si::cP * 1.0e-6  / (si::hour * si::atm), si::mD * 0.01},     // cP.rcc/hr/atm,  mD.cm
        {"PVT-M",  1.0,    si::cP * 1.0     / (si::day  * si::atm), si::mD * 1.0},      // cP.rm3/day/atm, mD.m
    };
    return u;
}

// ------------------------------------------------------------------ cells ---
struct Cell { double D[3]; double Kmd[3]; double ntg; };                // extents in m, permeability in mD (deck unit in all systems)
static const std::vector<Cell>& cells() {
    // all choices keep the Peaceman r0 of every direction > rw (0.125 .. 0.1524 m): smallest r0 is 2.16 m (cell 1, X)
    static const std::vector<Cell> c = {
        {{100.0,  60.0,  8.0}, { 200.0,   50.0,   5.0}, 0.6},
        {{ 30.0,  75.0,  4.0}, {   2.0, 2000.0,  20.0}, 1.0},
        {{ 12.0,  20.0, 45.0}, {1500.0,    1.5, 150.0}, 0.6},
        {{250.0, 180.0,  2.5}, {   0.8,    8.0, 800.0}, 1.0},
        // thorough only
        {{ 50.0,  50.0, 10.0}, { 100.0,  100.0, 100.0}, 1.0},           // isotropic cube-ish: the case the unit tests have
        {{ 17.0, 140.0, 22.0}, {3000.0,  300.0,   3.0}, 0.35},
        {{ 90.0,  11.0,  6.0}, {   5.0,  700.0,  70.0}, 0.8},
        {{ 40.0,  65.0, 30.0}, {  60.0,    6.0, 600.0}, 0.6},
    };
    return c;
}

// Independent Peaceman values of a cell for a well along axis a (0 X, 1 Y, 2 Z).
// Symmetric formulation in the two perpendicular axes b, c (no permutation table):
//   r0 = 0.28 sqrt(Db^2 sqrt(Kc/Kb) + Dc^2 sqrt(Kb/Kc)) / ((Kc/Kb)^(1/4) + (Kb/Kc)^(1/4)),  Kh = sqrt(Kb Kc) La
// with the net-to-gross ratio applied to the vertical extent.
static void peaceman(const Cell& c, int a, double& r0, double& kh) {
    double D[3] = {c.D[0], c.D[1], c.D[2] * c.ntg};
    double K[3] = {c.Kmd[0] * si::mD, c.Kmd[1] * si::mD, c.Kmd[2] * si::mD};
    int b = -1, cc = -1;
    for (int x = 0; x < 3; ++x) if (x != a) { if (b < 0) b = x; else cc = x; }
    const double q = K[cc] / K[b];
    r0 = 0.28 * std::sqrt(D[b] * D[b] * std::sqrt(q) + D[cc] * D[cc] * std::sqrt(1.0 / q)) / (std::pow(q, 0.25) + std::pow(1.0 / q, 0.25));
    kh = std::sqrt(K[b] * K[cc]) * D[a];
}

// ---------------------------------------------------------- COMPDAT input ---
enum CfMode { CF_DEF, CF_ZERO, CF_EXP, CF_NEG };
enum KhMode { KH_DEF, KH_NEG, KH_ZERO, KH_EXP };
static const char* cf_names[] = {"def", "zero", "exp", "neg"};
static const char* kh_names[] = {"def", "neg", "zero", "exp"};
static const std::vector<double>& skins() { static const std::vector<double> s = {0.0, 2.5, -0.5, -2.0, 0.0 /* defaulted token */}; return s; }

// physical input of one COMPDAT record (SI) + how each item is spelled
struct In {
    int dir = 2;
    int cf = CF_DEF, kh = KH_DEF; bool di = false, r0 = false; int sk = 0;
    int state = 0;                                       // 0 OPEN, 1 SHUT
    double CF = 7.5 * si::cP / (si::day * si::bar);      // explicit values, SI (value set 0)
    double Kh = 3000.0 * si::mD;
    double Dm = 0.25, R0 = 9.0;
    void value_set(int v) { if (v == 1) { CF = 400.0 * si::cP / (si::day * si::bar); Kh = 35.0 * si::mD; Dm = 4.5 * si::inch; R0 = 1.75; } }
    double S() const { return skins()[sk]; }
    bool cfE() const { return cf == CF_EXP; }
};
struct Tok { std::string cf, kh, di, r0, sk; };
static Tok tokens(const In& in, const Unit& u) {
    Tok t;
    t.cf = in.cf == CF_DEF ? "1*" : in.cf == CF_ZERO ? "0" : in.cf == CF_NEG ? "-1" : vf::fmt17(in.CF / u.cf);
    t.kh = in.kh == KH_DEF ? "1*" : in.kh == KH_NEG ? "-1" : in.kh == KH_ZERO ? "0" : vf::fmt17(in.Kh / u.kh);
    t.di = in.di ? vf::fmt17(in.Dm / u.len) : "1*";
    t.r0 = in.r0 ? vf::fmt17(in.R0 / u.len) : "1*";
    t.sk = in.sk == 4 ? "1*" : vf::fmt17(in.S());
    return t;
}
static std::string compdat_rec(const std::string& well, int i, int j, int k1, int k2, const Tok& t, int dir, int state = 0) {
    return " '" + well + "' " + std::to_string(i) + " " + std::to_string(j) + " " + std::to_string(k1) + " " + std::to_string(k2) + (state ? " SHUT 1* " : " OPEN 1* ") +
           t.cf + " " + t.di + " " + t.kh + " " + t.sk + " 1* " + std::string(1, "XYZ"[dir]) + " " + t.r0 + " /\n";
}

// What the record must produce.  One of CF / Kh / r0 is fixed by the relation
// CF (ln(r0/rw) + S) = 2 pi Kh (cls says which); the other two are either the
// explicit input or the cell's Peaceman value.
struct Ref { double CF, Kh, r0, rw, S; const char* cls; bool r0_from_input, kh_from_input; };
static Ref reference(const Cell& c, const In& in) {
    Ref r{}; r.S = in.S(); r.rw = in.di ? in.Dm / 2 : 0.5 * si::ft;   // defaulted diameter: 1 ft (E300 default, documented in loadCOMPDAT)
    double r0p, khp; peaceman(c, in.dir, r0p, khp);
    if (in.cfE() && in.kh == KH_EXP) {
        r.CF = in.CF; r.Kh = in.Kh; r.kh_from_input = true;
        if (in.r0) { r.cls = "overdetermined"; r.r0 = in.R0; r.r0_from_input = true; }
        else { r.cls = "derive-r0"; r.r0 = r.rw * std::exp(si::two_pi * r.Kh / r.CF - r.S); }
    } else if (in.cfE() && in.kh == KH_ZERO) {            // Kh = 0: Kh from the cell, r0 made compatible (explicit r0 cannot be honoured)
        r.CF = in.CF; r.Kh = khp; r.cls = "derive-r0"; r.r0 = r.rw * std::exp(si::two_pi * r.Kh / r.CF - r.S);
    } else if (in.cfE()) {                                // Kh defaulted / negative: Kh made compatible with CF
        r.CF = in.CF; r.r0 = in.r0 ? in.R0 : r0p; r.r0_from_input = in.r0; r.cls = "derive-Kh";
        r.Kh = r.CF * (std::log(r.r0 / r.rw) + r.S) / si::two_pi;
    } else {                                              // CF defaulted / 0 / negative
        r.kh_from_input = in.kh == KH_EXP; r.Kh = r.kh_from_input ? in.Kh : khp;
        r.r0 = in.r0 ? in.R0 : r0p; r.r0_from_input = in.r0; r.cls = "derive-CF";
        r.CF = si::two_pi * r.Kh / (std::log(r.r0 / r.rw) + r.S);
    }
    return r;
}

// ------------------------------------------------------------ observation ---
struct OC { int i, j, k, complnum; std::size_t sort; double CF, Kh, r0, rw, S; int state, dir; };
static OC observe(const Connection& c) {
    return {c.getI(), c.getJ(), c.getK(), c.complnum(), c.sort_value(), c.CF(), c.Kh(), c.r0(), c.rw(), c.skinFactor(),
            c.state() == Connection::State::OPEN ? 0 : c.state() == Connection::State::SHUT ? 1 : 2,
            c.dir() == Connection::Direction::X ? 0 : c.dir() == Connection::Direction::Y ? 1 : 2};
}
static bool close(double a, double b, double rel) { return std::fabs(a - b) <= rel * std::max(std::fabs(a), std::fabs(b)); }
static std::string oc_str(const OC& o) {
    return "(" + std::to_string(o.i + 1) + "," + std::to_string(o.j + 1) + "," + std::to_string(o.k + 1) + ") complnum=" + std::to_string(o.complnum) + " sort=" + std::to_string(o.sort) +
           " CF=" + vf::fmt17(o.CF) + " Kh=" + vf::fmt17(o.Kh) + " r0=" + vf::fmt17(o.r0) + " rw=" + vf::fmt17(o.rw) + " S=" + vf::fmt17(o.S) + " state=" + std::to_string(o.state);
}

// ------------------------------------------------------- parts a, b decks ---
static std::string grid_deck(const Unit& u, int nx, int ny, const std::vector<Cell>& layers, int maxwells) {
    const int nz = (int)layers.size(), nxy = nx * ny;
    auto arr = [&](const char* kw, auto f) { std::string s = std::string(kw) + "\n"; for (const auto& l : layers) s += " " + std::to_string(nxy) + "*" + vf::fmt17(f(l)); return s + " /\n"; };
    std::string s = "RUNSPEC\nDIMENS\n " + std::to_string(nx) + " " + std::to_string(ny) + " " + std::to_string(nz) + " /\nOIL\nWATER\n" + u.name + "\nWELLDIMS\n " +
                    std::to_string(maxwells) + " 10 2 " + std::to_string(maxwells) + " /\nSTART\n 1 JAN 2020 /\nGRID\n";
    s += arr("DX", [&](const Cell& c) { return c.D[0] / u.len; });
    s += arr("DY", [&](const Cell& c) { return c.D[1] / u.len; });
    s += arr("DZ", [&](const Cell& c) { return c.D[2] / u.len; });
    s += "TOPS\n " + std::to_string(nxy) + "*" + vf::fmt17(2000.0 / u.len) + " /\n";
    s += arr("PORO", [&](const Cell&) { return 0.3; });
    s += arr("PERMX", [&](const Cell& c) { return c.Kmd[0]; });
    s += arr("PERMY", [&](const Cell& c) { return c.Kmd[1]; });
    s += arr("PERMZ", [&](const Cell& c) { return c.Kmd[2]; });
    s += arr("NTG", [&](const Cell& c) { return c.ntg; });
    return s + "SCHEDULE\n";
}

struct Env { std::string grid; std::unique_ptr<EclipseState> es; };
static Env make_env(const Unit& u, int nx, int ny, const std::vector<Cell>& layers, int maxwells) {
    Env e; e.grid = grid_deck(u, nx, ny, layers, maxwells);
    auto d = g_parser->parseString(e.grid + "END\n"); e.es = std::make_unique<EclipseState>(d);
    return e;
}

// Builds one Schedule holding one well per record (each well: a single COMPDAT record in cell (1,1,1)).
// Returns one observation per record; on an exception the batch is split so that the culprit is isolated.
struct One { bool ok = false; OC oc{}; std::string err; };
static void build_records(const Env& env, const std::vector<std::string>& recs_no_well, size_t lo, size_t hi, std::vector<One>& out) {
    std::string s = env.grid + "WELSPECS\n";
    for (size_t n = lo; n < hi; ++n) s += " 'W" + std::to_string(n) + "' 'G' 1 1 1* OIL /\n";
    s += "/\nCOMPDAT\n";
    for (size_t n = lo; n < hi; ++n) s += " 'W" + std::to_string(n) + "'" + recs_no_well[n];
    s += "/\nEND\n";
    try {
        auto deck = g_parser->parseString(s);
        auto sched = std::make_unique<Schedule>(deck, *env.es, g_python);
        for (size_t n = lo; n < hi; ++n) {
            const auto& conns = sched->getWell("W" + std::to_string(n), 0).getConnections();
            if (conns.size() != 1) { out[n].err = "record produced " + std::to_string(conns.size()) + " connections"; continue; }
            out[n].ok = true; out[n].oc = observe(conns[0]);
        }
    } catch (const std::exception& e) {
        if (hi - lo == 1) { out[lo].err = std::string("exception: ") + std::string(e.what()).substr(0, 300); return; }
        size_t mid = lo + (hi - lo) / 2;
        build_records(env, recs_no_well, lo, mid, out); build_records(env, recs_no_well, mid, hi, out);
    }
}
static std::string rec_no_well(const Tok& t, int dir) { std::string r = compdat_rec("", 1, 1, 1, 1, t, dir); return r.substr(3); }   // strip " ''"

static std::string in_class(const In& in) {
    return std::string("CF=") + cf_names[in.cf] + ",Kh=" + kh_names[in.kh] + ",d=" + (in.di ? "exp" : "def") + ",r0=" + (in.r0 ? "exp" : "def");
}

// oracle of part a for one observed connection
// pfx: "C06:single" for load-time input; other input paths use their own prefix and leave the relation of the
// over-determined class (CF, Kh and r0 all explicit: decided by part a) to the differential comparison.
static void judge_single(const std::string& cs, const std::string& rec, const Cell& cell, const In& in, const One& o,
                         const std::string& pfx = "C06:single", bool other_path = false, const char* cnt = "a_") {
    const std::string rp = "{\"case\": " + vf::jstr(cs) + ", \"record\": " + vf::jstr(rec) + "}";
    if (!o.ok) { R->violation(pfx + ":rejected:" + in_class(in), "legal COMPDAT record not accepted: " + o.err + " [" + rec + "]", rp); return; }
    const Ref r = reference(cell, in);
    const OC& c = o.oc;
    const std::string cls = r.cls;
    const std::string what = " [" + rec + "] stored " + oc_str(c) + "; reference CF=" + vf::fmt17(r.CF) + " Kh=" + vf::fmt17(r.Kh) + " r0=" + vf::fmt17(r.r0) + " rw=" + vf::fmt17(r.rw);
    // (1) the relation on the stored values
    const double lhs = c.CF * (std::log(c.r0 / c.rw) + c.S), rhs = si::two_pi * c.Kh;
    if ((!(std::fabs(lhs - rhs) <= 1e-10 * std::fabs(rhs)) || !(c.CF > 0) || !(c.Kh > 0) || !(c.r0 > 0)) && !(other_path && cls == "overdetermined"))
        R->violation(pfx + ":identity:" + cls, "stored CF (ln(r0/rw)+S) / (2 pi Kh) - 1 = " + vf::fmt17(lhs / rhs - 1) + what, rp);
    // (2) explicit / defaulted quantities
    if (!close(c.rw, r.rw, 1e-12)) R->violation(pfx + ":rw-" + (in.di ? "explicit" : "defaulted"), "rw" + what, rp);
    if (!close(c.S, r.S, 1e-12) && !(c.S == 0 && r.S == 0)) R->violation(pfx + ":skin", "skin" + what, rp);
    if (c.dir != in.dir) R->violation(pfx + ":dir", "direction" + what, rp);
    if (cls != "derive-CF" && !close(c.CF, r.CF, 1e-12)) R->violation(pfx + ":CF-explicit:" + cls, "explicit CF not stored as given (unit conversion?)" + what, rp);
    if (cls != "derive-Kh" && !close(c.Kh, r.Kh, r.kh_from_input ? 1e-12 : 1e-10))
        R->violation(pfx + ":Kh-" + (r.kh_from_input ? "explicit" : "defaulted") + ":" + cls, "Kh" + what, rp);
    if (cls != "derive-r0" && cls != "overdetermined" && !close(c.r0, r.r0, r.r0_from_input ? 1e-12 : 1e-10))
        R->violation(pfx + ":r0-" + (r.r0_from_input ? "explicit" : "defaulted") + ":" + cls, "r0" + what, rp);
    R->count(std::string(cnt) + "class_" + cls);
    if (c.r0 < c.rw) R->count(std::string(cnt) + "stored_r0_below_rw");
    char b[200]; std::snprintf(b, sizeof b, "%s%s|%.12g|%.12g|%.12g|%.12g|%g", other_path ? pfx.c_str() : "", r.cls, c.CF, c.Kh, c.r0, c.rw, c.S);
    R->observe(std::string(b));
}

struct Alpha { int ncell, ncf, nkh, nsk, nval; };
static Alpha alpha() { return R->thorough() ? Alpha{8, 4, 4, 5, 2} : Alpha{4, 4, 4, 5, 2}; }

static std::string case_a(int u, int c, const In& in, int v) {
    return "a " + std::to_string(u) + " " + std::to_string(c) + " " + std::to_string(in.dir) + " " + std::to_string(in.cf) + " " + std::to_string(in.kh) + " " + std::to_string(in.di) + " " + std::to_string(in.r0) + " " + std::to_string(in.sk) + " " + std::to_string(v);
}

// feedback tokens for part b
static Tok feedback(const Tok& base, const OC& o, const Unit& u, int mask) {
    Tok t = base;
    if (mask & 1) t.cf = vf::fmt17(o.CF / u.cf);
    if (mask & 2) t.kh = vf::fmt17(o.Kh / u.kh);
    if (mask & 4) t.r0 = vf::fmt17(o.r0 / u.len);
    return t;
}
static const char* mask_name(int m) { static const char* n[] = {"", "CF", "Kh", "CF+Kh", "r0", "CF+r0", "Kh+r0", "CF+Kh+r0"}; return n[m & 7]; }
// which of CF/Kh/r0 the relation fixes in the record after the feedback
static const char* feedback_class(const In& in, int mask) {
    const bool cfE = in.cfE() || (mask & 1), khE = in.kh == KH_EXP || (mask & 2), r0E = in.r0 || (mask & 4);
    if (cfE && khE) return r0E ? "overdetermined" : "derive-r0";
    if (cfE && in.kh == KH_ZERO) return "derive-r0";
    return cfE ? "derive-Kh" : "derive-CF";
}
static void judge_feedback(const std::string& cs, const std::string& rec, int mask, const In& in, const OC& base, const One& o) {
    const std::string rp = "{\"case\": " + vf::jstr(cs) + ", \"record\": " + vf::jstr(rec) + "}";
    const std::string key = std::string("C06:explicit-eq-computed:") + mask_name(mask) + ":" + feedback_class(in, mask);
    if (!o.ok) { R->violation(key + ":rejected", "record with fed-back values not accepted: " + o.err + " [" + rec + "]", rp); return; }
    const OC& c = o.oc;
    std::string bad;
    if (!close(c.CF, base.CF, 1e-9)) bad += " CF";
    if (!close(c.Kh, base.Kh, 1e-9)) bad += " Kh";
    if (!close(c.r0, base.r0, 1e-9)) bad += " r0";
    if (!close(c.rw, base.rw, 1e-12)) bad += " rw";
    if (c.S != base.S) bad += " skin";
    if (!bad.empty()) R->violation(key + ":changes" + [&] { std::string k = bad; for (auto& ch : k) if (ch == ' ') ch = '-'; return k; }(), "entering the computed {" + std::string(mask_name(mask)) + "} explicitly changes" + bad + ": before " + oc_str(base) + " after " + oc_str(c) + " [" + rec + "]", rp);
    char b[160]; std::snprintf(b, sizeof b, "fb%d|%.12g|%.12g|%.12g", mask, c.CF, c.Kh, c.r0);
    R->observe(std::string(b));
}

static void parts_ab() {
    const Alpha A = alpha();
    const auto& U = units(); const auto& C = cells();
    long group = 0;
    for (int ui = 0; ui < (int)U.size(); ++ui) for (int ci = 0; ci < A.ncell; ++ci) {
        std::optional<Env> env;
        for (int dir = 0; dir < 3; ++dir, ++group) {
            if (!R->mine(group)) continue;
            if (R->timed_out()) return;
            if (!env) env.emplace(make_env(U[ui], 2, 2, {C[ci], C[ci]}, 2000));
            std::vector<In> ins; std::vector<Tok> toks; std::vector<std::string> recs, names;
            for (int v = 0; v < A.nval; ++v) for (int cf = 0; cf < A.ncf; ++cf) for (int kh = 0; kh < A.nkh; ++kh) for (int di = 0; di < 2; ++di) for (int r0 = 0; r0 < 2; ++r0) for (int sk = 0; sk < A.nsk; ++sk) {
                In in; in.dir = dir; in.cf = cf; in.kh = kh; in.di = di; in.r0 = r0; in.sk = sk; in.value_set(v);
                if (v > 0 && cf != CF_EXP && kh != KH_EXP && !di && !r0) continue;      // no explicit item: the value set does not show
                ins.push_back(in); toks.push_back(tokens(in, U[ui])); recs.push_back(rec_no_well(toks.back(), dir)); names.push_back(case_a(ui, ci, in, v));
            }
            R->current("a-batch " + std::to_string(ui) + " " + std::to_string(ci) + " " + std::to_string(dir));
            std::vector<One> base(recs.size());
            build_records(*env, recs, 0, recs.size(), base);
            for (size_t n = 0; n < recs.size(); ++n) {
                R->evaluations++; R->count("a_cases");
                judge_single(names[n], recs[n], C[ci], ins[n], base[n]);
                if (n % 97 == 5 && ui == (int)(group % 4) && R->samples.size() < 3) R->sample_str(names[n] + "  => " + U[ui].name + " cell " + std::to_string(ci) + ": COMPDAT 'W'" + recs[n].substr(0, recs[n].size() - 1) + "  -> " + (base[n].ok ? oc_str(base[n].oc) : base[n].err));
            }
            // every case once more alone in its own deck: the batching must not matter
            for (size_t n = 0; n < recs.size(); ++n) {
                R->current(names[n]);
                std::vector<One> one(recs.size());
                build_records(*env, recs, n, n + 1, one);
                R->evaluations++; R->count("a_cases_single_deck");
                if (one[n].ok != base[n].ok || (one[n].ok && std::memcmp(&one[n].oc, &base[n].oc, sizeof(OC)) != 0 && !(oc_str(one[n].oc) == oc_str(base[n].oc))))
                    R->violation("C06:harness:batch-differs", "record gives a different connection alone than among other wells: " + names[n], "{\"case\": " + vf::jstr(names[n]) + "}");
            }
            // part b
            std::vector<std::string> frecs, fnames; std::vector<int> fmask; std::vector<size_t> fbase;
            for (size_t n = 0; n < recs.size(); ++n) {
                if (!base[n].ok) continue;
                for (int m = 1; m < 8; ++m) {
                    frecs.push_back(rec_no_well(feedback(toks[n], base[n].oc, U[ui], m), dir));
                    fnames.push_back("b" + names[n].substr(1) + " " + std::to_string(m)); fmask.push_back(m); fbase.push_back(n);
                }
            }
            R->current("b-batch " + std::to_string(ui) + " " + std::to_string(ci) + " " + std::to_string(dir));
            std::vector<One> fb(frecs.size());
            for (size_t lo = 0; lo < frecs.size(); lo += 560) build_records(*env, frecs, lo, std::min(frecs.size(), lo + 560), fb);
            for (size_t n = 0; n < frecs.size(); ++n) { R->evaluations++; R->count("b_cases"); judge_feedback(fnames[n], frecs[n], fmask[n], ins[fbase[n]], base[fbase[n]].oc, fb[n]); }
        }
    }
}

static void replay_ab(const std::string& cs) {
    std::istringstream ss(cs); std::string part; int ui, ci; In in; int di, r0, v = 0, mask = 0;
    ss >> part >> ui >> ci >> in.dir >> in.cf >> in.kh >> di >> r0 >> in.sk >> v; in.di = di; in.r0 = r0; in.value_set(v); if (part == "b") ss >> mask;
    const auto& U = units(); const auto& C = cells();
    Env env = make_env(U[ui], 2, 2, {C[ci], C[ci]}, 2000);
    Tok t = tokens(in, U[ui]);
    std::vector<std::string> recs = {rec_no_well(t, in.dir)}; std::vector<One> o(1);
    build_records(env, recs, 0, 1, o);
    R->evaluations++;
    if (part == "a") { judge_single(cs, recs[0], C[ci], in, o[0]); std::fprintf(stderr, "%s\n -> %s\n", recs[0].c_str(), o[0].ok ? oc_str(o[0].oc).c_str() : o[0].err.c_str()); return; }
    if (!o[0].ok) return;
    std::vector<std::string> fr = {rec_no_well(feedback(t, o[0].oc, U[ui], mask), in.dir)}; std::vector<One> f(1);
    build_records(env, fr, 0, 1, f);
    judge_feedback(cs, fr[0], mask, in, o[0].oc, f[0]);
    std::fprintf(stderr, "%s -> %s\n%s -> %s\n", recs[0].c_str(), oc_str(o[0].oc).c_str(), fr[0].c_str(), f[0].ok ? oc_str(f[0].oc).c_str() : f[0].err.c_str());
}

// ------------------------------------------------------------------ part d ---
// 4x4x2 grid, every cell different; wells only in off-diagonal columns, both (i,j) and (j,i) in use.
namespace hg {
    const int NX = 4, NY = 4, NZ = 2;
    const double DXV[NX] = {60.0, 80.0, 100.0, 120.0}, DYV[NY] = {40.0, 70.0, 90.0, 130.0}, DZV[NZ] = {8.0, 12.0};    // m
    inline int gidx(int i, int j, int k) { return i + NX * (j + NY * k); }
    inline Cell cell(int i, int j, int k) { const int g = gidx(i, j, k); return {{DXV[i], DYV[j], DZV[k]}, {100.0 + 37.0 * g, 600.0 - 10.0 * g, 20.0 + 4.0 * g}, 0.45 + 0.015 * g}; }
    inline double depth(int k) { double d = 2000.0; for (int l = 0; l < k; ++l) d += DZV[l]; return d + DZV[k] / 2; }
    struct Loc { int i, j, k; };
    inline const std::vector<Loc>& locs() {
        static const std::vector<Loc> l = {{0,2,0},{2,0,1},{1,3,0},{3,1,1},{0,1,1},{1,0,0},{2,3,1},{3,2,0},{2,0,0},{0,2,1},{3,1,0},{1,3,1},{1,0,1},{0,1,0},{3,2,1},{2,3,0}};
        return l;
    }
}
static std::string hetero_grid_deck(const Unit& u) {
    using namespace hg;
    auto vec = [&](const char* kw, const double* v, int n) { std::string s = std::string(kw) + "\n"; for (int x = 0; x < n; ++x) s += " " + vf::fmt17(v[x] / u.len); return s + " /\n"; };
    auto arr = [&](const char* kw, auto f) { std::string s = std::string(kw) + "\n"; for (int k = 0; k < NZ; ++k) for (int j = 0; j < NY; ++j) for (int i = 0; i < NX; ++i) s += " " + vf::fmt17(f(cell(i, j, k))); return s + " /\n"; };
    std::string s = std::string("RUNSPEC\nDIMENS\n 4 4 2 /\nOIL\nWATER\n") + u.name + "\nWELLDIMS\n 2000 40 2 2000 /\nSTART\n 1 JAN 2020 /\nGRID\n";
    s += vec("DXV", DXV, NX) + vec("DYV", DYV, NY) + vec("DZV", DZV, NZ);
    s += "TOPS\n 16*" + vf::fmt17(2000.0 / u.len) + " /\nPORO\n 32*0.25 /\n";
    s += arr("PERMX", [](const Cell& c) { return c.Kmd[0]; }) + arr("PERMY", [](const Cell& c) { return c.Kmd[1]; }) + arr("PERMZ", [](const Cell& c) { return c.Kmd[2]; }) + arr("NTG", [](const Cell& c) { return c.ntg; });
    return s + "SCHEDULE\n";
}
static Env make_hetero_env(const Unit& u) {
    Env e; e.grid = hetero_grid_deck(u);
    auto d = g_parser->parseString(e.grid + "END\n"); e.es = std::make_unique<EclipseState>(d);
    return e;
}
enum Path { P_LOAD, P_ACTIONX, P_REPLAY, P_ACTIONX1, NPATH };
static const char* path_names[] = {"load", "actionx", "replay", "actionx-step1"};
struct OD { OC oc; double depth; std::size_t gidx; };
struct OneD { bool ok = false; OD od{}; std::string err; One one() const { One o; o.ok = ok; o.oc = od.oc; o.err = err; return o; } };

// One Schedule with one well per record; the record reaches the Schedule on the given path.  Helper wells: Y is completed at
// load time in every cell the W wells can use (so every cell and its transposed cell is in the cell cache whatever the batch),
// Z is the well the action of the replay path acts on.
static void build_path(const Env& env, int path, const std::vector<std::string>& recs, const std::vector<hg::Loc>& loc, size_t lo, size_t hi, std::vector<OneD>& out) {
    std::string s = env.grid + "WELSPECS\n";
    for (size_t n = lo; n < hi; ++n) s += " 'W" + std::to_string(n) + "' 'G' " + std::to_string(loc[n].i + 1) + " " + std::to_string(loc[n].j + 1) + " 1* OIL /\n";
    s += " 'Y' 'G' 1 3 1* OIL /\n 'Z' 'G' 1 1 1* OIL /\n/\nCOMPDAT\n 'Z' 1 1 1 1 OPEN /\n";
    for (const auto& l : hg::locs()) s += " 'Y' " + std::to_string(l.i + 1) + " " + std::to_string(l.j + 1) + " " + std::to_string(l.k + 1) + " " + std::to_string(l.k + 1) + " OPEN /\n";
    s += "/\n";
    std::string comp = "COMPDAT\n";
    for (size_t n = lo; n < hi; ++n) comp += " 'W" + std::to_string(n) + "'" + recs[n];
    comp += "/\n";
    const std::string step = "TSTEP\n 10 /\n";
    switch (path) {
    case P_LOAD: s += comp + step + step; break;
    case P_ACTIONX: case P_ACTIONX1: s += "ACTIONX\n ACT 10 /\n FPR < 100 /\n/\n" + comp + "ENDACTIO\n" + step + step; break;
    case P_REPLAY: s += "ACTIONX\n ACT 10 /\n FPR < 100 /\n/\nWELOPEN\n 'Z' SHUT /\n/\nENDACTIO\n" + step + comp + step; break;
    }
    s += "END\n";
    try {
        auto deck = g_parser->parseString(s);
        auto sched = std::make_unique<Schedule>(deck, *env.es, g_python);          // never copied / moved
        if (path != P_LOAD) {
            const std::size_t at = path == P_ACTIONX1 ? 1 : 0;
            const auto& act = (*sched)[at].actions()["ACT"];
            sched->applyAction(at, act, Action::Result{true}.matches(), std::unordered_map<std::string, double>{});
        }
        const std::size_t last = sched->size() - 1;
        for (size_t n = lo; n < hi; ++n) {
            const auto& conns = sched->getWell("W" + std::to_string(n), last).getConnections();
            if (conns.size() != 1) { out[n].err = "record produced " + std::to_string(conns.size()) + " connections"; continue; }
            out[n].ok = true; out[n].od = OD{observe(conns[0]), conns[0].depth(), conns[0].global_index()};
        }
    } catch (const std::exception& e) {
        if (hi - lo == 1) { out[lo].err = std::string("exception: ") + std::string(e.what()).substr(0, 300); return; }
        size_t mid = lo + (hi - lo) / 2;
        build_path(env, path, recs, loc, lo, mid, out); build_path(env, path, recs, loc, mid, hi, out);
    }
}

struct Form { In in; int v; };
static std::vector<Form> forms(int dir) {
    const Alpha A = alpha(); std::vector<Form> f;
    for (int v = 0; v < A.nval; ++v) for (int cf = 0; cf < A.ncf; ++cf) for (int kh = 0; kh < A.nkh; ++kh) for (int di = 0; di < 2; ++di) for (int r0 = 0; r0 < 2; ++r0) for (int sk = 0; sk < A.nsk; ++sk) {
        In in; in.dir = dir; in.cf = cf; in.kh = kh; in.di = di; in.r0 = r0; in.sk = sk; in.value_set(v);
        if (v > 0 && cf != CF_EXP && kh != KH_EXP && !di && !r0) continue;
        f.push_back({in, v});
    }
    return f;
}
static std::string case_d(int ui, int dir, int shift, int path, size_t n) { return "d " + std::to_string(ui) + " " + std::to_string(dir) + " " + std::to_string(shift) + " " + std::to_string(path) + " " + std::to_string(n); }

// judges form n of a batch on one path (and against the load-time connection)
static void judge_path(int ui, int dir, int shift, int path, size_t n, const Form& f, const hg::Loc& l, const std::string& rec, const OneD& load, const OneD& got) {
    const std::string cs = case_d(ui, dir, shift, path, n);
    const std::string pfx = path == P_LOAD ? "C06:single" : std::string("C06:path-") + path_names[path];
    const std::string rp = "{\"case\": " + vf::jstr(cs) + ", \"record\": " + vf::jstr(rec) + "}";
    const std::string cnt = std::string("d_") + path_names[path] + "_";
    R->evaluations++; R->count(cnt + "cases");
    judge_single(cs, rec, hg::cell(l.i, l.j, l.k), f.in, got.one(), pfx, path != P_LOAD, cnt.c_str());
    if (!got.ok) return;
    const OD& g = got.od;
    const std::string own = " own cell (" + std::to_string(l.i + 1) + "," + std::to_string(l.j + 1) + "," + std::to_string(l.k + 1) + ")";
    if (g.oc.i != l.i || g.oc.j != l.j || g.oc.k != l.k) R->violation(pfx + ":ijk", "connection sits in " + oc_str(g.oc) + " instead of" + own + " [" + rec + "]", rp);
    if (g.gidx != (std::size_t)hg::gidx(l.i, l.j, l.k)) R->violation(pfx + ":global-index", "global index " + std::to_string(g.gidx) + " is not that of the" + own + " (" + std::to_string(hg::gidx(l.i, l.j, l.k)) + ") [" + rec + "]", rp);
    if (!close(g.depth, hg::depth(l.k), 1e-10)) R->violation(pfx + ":depth", "depth " + vf::fmt17(g.depth) + " is not the centre depth " + vf::fmt17(hg::depth(l.k)) + " of the" + own + " [" + rec + "]", rp);
    if (path == P_LOAD) return;
    if (!load.ok) { R->violation(pfx + ":accepted-but-rejected-at-load-time", "record accepted on path " + std::string(path_names[path]) + " but not at load time (" + load.err + ") [" + rec + "]", rp); return; }
    const OD& a = load.od; std::string d;
    if (g.oc.CF != a.oc.CF) d += "-CF"; if (g.oc.Kh != a.oc.Kh) d += "-Kh"; if (g.oc.r0 != a.oc.r0) d += "-r0"; if (g.oc.rw != a.oc.rw) d += "-rw"; if (g.oc.S != a.oc.S) d += "-skin";
    if (g.depth != a.depth) d += "-depth"; if (g.gidx != a.gidx) d += "-globalindex";
    if (g.oc.i != a.oc.i || g.oc.j != a.oc.j || g.oc.k != a.oc.k) d += "-ijk";
    if (g.oc.complnum != a.oc.complnum) d += "-complnum"; if (g.oc.sort != a.oc.sort) d += "-sortvalue"; if (g.oc.state != a.oc.state) d += "-state"; if (g.oc.dir != a.oc.dir) d += "-dir";
    // key: which kind of datum differs (the list of fields is in the text)
    std::string kind;
    if (d.find("-CF") != std::string::npos || d.find("-Kh") != std::string::npos || d.find("-r0") != std::string::npos || d.find("-depth") != std::string::npos || d.find("-globalindex") != std::string::npos || d.find("-ijk") != std::string::npos) kind += "+cell-data";
    if (d.find("-rw") != std::string::npos || d.find("-skin") != std::string::npos || d.find("-state") != std::string::npos || d.find("-dir") != std::string::npos) kind += "+record-data";
    if (d.find("-complnum") != std::string::npos || d.find("-sortvalue") != std::string::npos) kind += "+numbering";
    if (!d.empty()) R->violation(pfx + ":differs-from-load-time:" + kind.substr(1), "fields " + d.substr(1) + ": the same record in the same cell gives a different connection on path " + std::string(path_names[path]) + ": " + oc_str(g.oc) + " depth=" + vf::fmt17(g.depth) + " gidx=" + std::to_string(g.gidx) +
                                 "; at load time: " + oc_str(a.oc) + " depth=" + vf::fmt17(a.depth) + " gidx=" + std::to_string(a.gidx) + ";" + own + " [" + rec + "]", rp);
}

static std::vector<int> d_shifts() { return R->thorough() ? std::vector<int>{0, 1, 2, 3, 4, 5, 6, 7, 8, 9, 10, 11, 12, 13, 14, 15} : std::vector<int>{0, 3, 6, 9, 12}; }
static int d_npath() { return R->thorough() ? (int)NPATH : 3; }

static void run_d_batch(const Env& env, int ui, int dir, int shift, long only_form, int only_path) {
    const auto F = forms(dir); const auto& L = hg::locs();
    std::vector<std::string> recs; std::vector<hg::Loc> loc;
    for (size_t n = 0; n < F.size(); ++n) {
        const hg::Loc l = L[(n + shift) % L.size()]; loc.push_back(l);
        recs.push_back(compdat_rec("", l.i + 1, l.j + 1, l.k + 1, l.k + 1, tokens(F[n].in, units()[ui]), dir).substr(3));
    }
    std::vector<std::vector<OneD>> got(NPATH, std::vector<OneD>(recs.size()));
    for (int p = 0; p < d_npath() || (only_path >= 0 && p <= only_path); ++p) {
        if (only_path >= 0 && p != P_LOAD && p != only_path) continue;
        R->current("d-batch " + std::to_string(ui) + " " + std::to_string(dir) + " " + std::to_string(shift) + " " + path_names[p]);
        build_path(env, p, recs, loc, 0, recs.size(), got[p]);
        for (size_t n = 0; n < recs.size(); ++n) {
            if (only_form >= 0 && (long)n != only_form) continue;
            judge_path(ui, dir, shift, p, n, F[n], loc[n], recs[n], got[P_LOAD][n], got[p][n]);
            if (only_form >= 0) std::fprintf(stderr, "%s: 'W%zu'%s -> %s\n", path_names[p], n, recs[n].c_str(), got[p][n].ok ? (oc_str(got[p][n].od.oc) + " depth=" + vf::fmt17(got[p][n].od.depth) + " gidx=" + std::to_string(got[p][n].od.gidx)).c_str() : got[p][n].err.c_str());
            if (only_form < 0 && p == P_ACTIONX && n == (size_t)(37 * (shift + 1) + 11 * dir) % recs.size() && R->samples.size() < 5)
                R->sample_str(case_d(ui, dir, shift, p, n) + "  => " + units()[ui].name + " ACTIONX body: COMPDAT 'W'" + recs[n].substr(0, recs[n].size() - 1) + "  -> " + (got[p][n].ok ? oc_str(got[p][n].od.oc) : got[p][n].err));
        }
    }
}

static void part_d() {
    // the alphabet must stay clear of ln(r0/rw)+S <= 0: smallest Peaceman r0 of the grid
    double r0min = 1e300;
    for (int k = 0; k < hg::NZ; ++k) for (int j = 0; j < hg::NY; ++j) for (int i = 0; i < hg::NX; ++i) for (int a = 0; a < 3; ++a) { double r0, kh; peaceman(hg::cell(i, j, k), a, r0, kh); r0min = std::min(r0min, r0); }
    if (R->shard == 0) R->notes["d_smallest_peaceman_r0_m"] = vf::fmt17(r0min);
    if (r0min < 1.5) { R->violation("C06:harness:part-d-grid", "part d grid has a cell with Peaceman r0 " + vf::fmt17(r0min)); return; }
    long group = 5;                                           // offset: spread over shards differently from parts a/b
    for (int ui = 0; ui < (int)units().size(); ++ui) {
        std::optional<Env> env;
        for (int dir = 0; dir < 3; ++dir) for (int shift : d_shifts()) {
            if (!R->mine(group++)) continue;
            if (R->timed_out()) return;
            if (!env) env.emplace(make_hetero_env(units()[ui]));
            run_d_batch(*env, ui, dir, shift, -1, -1);
        }
    }
}
static void replay_d(const std::string& cs) {
    std::istringstream ss(cs); std::string part; int ui, dir, shift, path; long n; ss >> part >> ui >> dir >> shift >> path >> n;
    Env env = make_hetero_env(units()[ui]);
    run_d_batch(env, ui, dir, shift, n, path);
}

// ------------------------------------------------------------------ part e ---
// Column (1,1) of a 2x2x3 grid: layer 1 a cube with isotropic permeability and NTG 1 (all three directions give
// bit-identical CF/Kh/r0), layer 2 DX=DY, PERMX=PERMY, DZ and PERMZ different (X and Y identical), layer 3 anisotropic.
static const std::vector<Cell>& e_layers() {
    static const std::vector<Cell> l = {
        {{20.0, 20.0, 20.0}, {100.0, 100.0, 100.0}, 1.0},
        {{20.0, 20.0,  7.0}, {150.0, 150.0,  15.0}, 1.0},
        {{20.0, 20.0, 11.0}, {200.0,  50.0,   5.0}, 0.6},
    };
    return l;
}
struct Rec { In in; int sat = 0; double dfac = -1; };     // sat 0: defaulted (cell's SATNUM = 1); dfac < 0: defaulted (0); dfac in s/m3
static double dfac_unit(int ui) { static const double f[] = {si::day / 1.0, si::day / (1000.0 * si::ft * si::ft * si::ft), si::hour / 1.0e-6, si::day / 1.0}; return f[ui]; }   // Time / GasSurfaceVolume
static std::string rec_full(const Rec& r, int ui, int k) {
    const Unit& u = units()[ui]; const Tok t = tokens(r.in, u);
    return " 'W' 1 1 " + std::to_string(k + 1) + " " + std::to_string(k + 1) + (r.in.state ? " SHUT " : " OPEN ") + (r.sat ? std::to_string(r.sat) : std::string("1*")) + " " +
           t.cf + " " + t.di + " " + t.kh + " " + t.sk + " " + (r.dfac < 0 ? std::string("1*") : vf::fmt17(r.dfac / dfac_unit(ui))) + " " + std::string(1, "XYZ"[r.in.dir]) + " " + t.r0 + " /\n";
}
static const double E_DFAC = 1.0e-4 * 86400.0;             // 1e-4 day/sm3
static const int E_NFORM = 5, E_NMUT = 13;
static const char* e_mut_names[E_NMUT] = {"dir-a", "dir-b", "state", "sat-table", "diameter", "skin", "Kh-value", "Kh-default-or-zero", "CF-value", "CF-default", "r0", "D-factor", "sat-table-b"};
static const char* e_mut_item(int m) { static const char* n[E_NMUT] = {"dir", "dir", "state", "sat-table", "diameter", "skin", "Kh", "Kh", "CF", "CF", "r0", "D-factor", "sat-table"}; return n[m]; }
static Rec e_form(int f, int dir) {
    Rec r; r.in.dir = dir;
    switch (f) {
    case 0: r.in.di = true; break;
    case 1: r.in.di = true; r.in.kh = KH_EXP; r.in.Kh = 900.0 * si::mD; break;
    case 2: r.in.di = true; r.in.cf = CF_EXP; r.in.CF = 12.5 * si::cP / (si::day * si::bar); break;
    case 3: r.in.r0 = true; r.in.sk = 1; break;
    case 4: r.in.di = true; r.in.state = 1; r.sat = 2; r.dfac = E_DFAC; break;
    }
    return r;
}
// returns false if the mutation does not apply to this record
static bool e_mutate(Rec& r, int m) {
    switch (m) {
    case 0: r.in.dir = (r.in.dir + 1) % 3; return true;
    case 1: r.in.dir = (r.in.dir + 2) % 3; return true;
    case 2: r.in.state = !r.in.state; return true;
    case 3: r.sat = r.sat ? 0 : 2; return true;
    case 4: if (r.in.di) r.in.Dm = 0.3; else r.in.di = true; return true;
    case 5: r.in.sk = r.in.sk == 0 ? 1 : r.in.sk == 1 ? 2 : 0; return true;
    case 6: if (r.in.kh == KH_EXP) r.in.Kh *= 0.5; else { r.in.kh = KH_EXP; r.in.Kh = 900.0 * si::mD; } return true;
    case 7: r.in.kh = r.in.kh == KH_EXP ? KH_DEF : KH_ZERO; return true;
    case 8: if (r.in.cfE()) r.in.CF *= 2.0; else { r.in.cf = CF_EXP; r.in.CF = 12.5 * si::cP / (si::day * si::bar); } return true;
    case 9: if (!r.in.cfE()) return false; r.in.cf = CF_DEF; return true;
    case 10: if (r.in.r0) r.in.R0 = 5.0; else r.in.r0 = true; return true;
    case 11: r.dfac = r.dfac < 0 ? E_DFAC : 2.0 * E_DFAC; return true;
    case 12: if (!r.sat) return false; r.sat = 1; return true;
    }
    return false;
}
struct OE { OC oc; int sat; double dfac; };
static std::string oe_str(const OE& o) { return oc_str(o.oc) + " dir=" + std::string(1, "XYZ"[o.oc.dir]) + " sat=" + std::to_string(o.sat) + " dfac=" + vf::fmt17(o.dfac); }
struct BuiltE { bool ok = false; std::vector<std::vector<OE>> steps; std::string err; };
static BuiltE build_e(const Env& env, const std::string& sched_text) {
    BuiltE b;
    try {
        auto deck = g_parser->parseString(env.grid + sched_text);
        auto sched = std::make_unique<Schedule>(deck, *env.es, g_python);
        for (std::size_t st = 0; st < sched->size(); ++st) {
            std::vector<OE> v;
            for (const auto& c : sched->getWell("W", st).getConnections()) v.push_back({observe(c), c.satTableId(), c.dFactor()});
            b.steps.push_back(v);
        }
        b.ok = true;
    } catch (const std::exception& e) { b.err = std::string(e.what()).substr(0, 300); }
    return b;
}
static void run_e_case(const Env& env, int ui, int k, int dir, int f, int m, int timing, bool verbose) {
    Rec base = e_form(f, dir), next = base;
    if (!e_mutate(next, m)) return;
    const int ku = (k + 1) % 3;                                       // layer of the untargeted connection
    Rec other; other.in.di = true; other.in.dir = (dir + 1) % 3;
    const std::string cs = "e " + std::to_string(ui) + " " + std::to_string(k) + " " + std::to_string(dir) + " " + std::to_string(f) + " " + std::to_string(m) + " " + std::to_string(timing);
    R->current(cs);
    const std::string head = "WELSPECS\n 'W' 'G' 1 1 1* OIL /\n/\nCOMPORD\n 'W' INPUT /\n/\nCOMPDAT\n" + rec_full(base, ui, k) + rec_full(other, ui, ku) + "/\n";
    const std::string step = "TSTEP\n 10 /\n";
    const std::string re = "COMPDAT\n" + rec_full(next, ui, k) + "/\n";
    const std::string text = head + (timing ? step : "") + re + step + step + "END\n";
    const std::string rp = "{\"case\": " + vf::jstr(cs) + ", \"schedule\": " + vf::jstr(text) + "}";
    const std::string pre = std::string("C06:reentry:change-") + e_mut_item(m) + ":";
    R->evaluations++; R->count("e_cases"); R->count(std::string("e_change_") + e_mut_item(m));
    const BuiltE B0 = build_e(env, head + step + step + step + "END\n");           // without the re-entry
    const BuiltE B = build_e(env, text);
    if (verbose) { std::fputs(text.c_str(), stderr); for (size_t st = 0; B.ok && st < B.steps.size(); ++st) for (const auto& o : B.steps[st]) std::fprintf(stderr, "step %zu: %s\n", st, oe_str(o).c_str()); }
    if (!B0.ok || B0.steps[0].size() != 2) { R->violation(pre + "base-rejected", "base records not accepted: " + B0.err + " [" + head + "]", rp); return; }
    if (!B.ok) { R->violation(pre + "rejected", "re-entry not accepted: " + B.err + " [" + re + "]", rp); return; }
    const OE& tb = B0.steps[0][0]; const OE& ub = B0.steps[0][1];              // COMPORD INPUT: input order
    const Ref r = reference(e_layers()[k], next.in);
    const int sat_exp = next.sat ? next.sat : 1; const double df_exp = next.dfac < 0 ? 0.0 : next.dfac;
    const bool symmetric_dir_change = (m <= 1) && (k == 0 || (k == 1 && base.in.dir != 2 && next.in.dir != 2));
    if (symmetric_dir_change) R->count("e_direction_changes_with_bit_identical_CF_Kh_r0");
    for (std::size_t st = timing; st < B.steps.size(); ++st) {
        const auto& v = B.steps[st];
        const std::string ctx = " at step " + std::to_string(st) + " (re-entry in step " + std::to_string(timing) + "), base [" + rec_full(base, ui, k) + "] re-entered as [" + rec_full(next, ui, k) + "]";
        if (v.size() != 2 || v[0].oc.k != k || v[1].oc.k != ku) { R->violation(pre + "connection-list", "well does not hold the targeted and the untargeted connection in input order" + ctx, rp); break; }
        const OE& t = v[0]; const OE& u = v[1];
        auto bad = [&](const char* field, const std::string& exp) { R->violation(pre + "targeted-" + field, std::string(field) + " of the re-entered connection is not that of the new record (expected " + exp + "): " + oe_str(t) + ctx, rp); };
        if (t.oc.dir != next.in.dir) bad("dir", std::string(1, "XYZ"[next.in.dir]));
        if (t.oc.state != next.in.state) bad("state", std::to_string(next.in.state));
        if (t.sat != sat_exp) bad("sat-table", std::to_string(sat_exp));
        if (!close(t.dfac, df_exp, 1e-12) && !(t.dfac == 0 && df_exp == 0)) bad("D-factor", vf::fmt17(df_exp));
        if (!close(t.oc.CF, r.CF, 1e-10)) bad("CF", vf::fmt17(r.CF));
        if (!close(t.oc.Kh, r.Kh, 1e-10)) bad("Kh", vf::fmt17(r.Kh));
        if (!close(t.oc.r0, r.r0, 1e-10)) bad("r0", vf::fmt17(r.r0));
        if (!close(t.oc.rw, r.rw, 1e-12)) bad("rw", vf::fmt17(r.rw));
        if (!close(t.oc.S, r.S, 1e-12) && !(t.oc.S == 0 && r.S == 0)) bad("skin", vf::fmt17(r.S));
        if (t.oc.complnum != tb.oc.complnum) bad("complnum", std::to_string(tb.oc.complnum));
        if (t.oc.sort != tb.oc.sort) bad("sort_value", std::to_string(tb.oc.sort));
        if (std::memcmp(&u.oc.CF, &ub.oc.CF, sizeof(double)) != 0 || u.oc.Kh != ub.oc.Kh || u.oc.r0 != ub.oc.r0 || u.oc.rw != ub.oc.rw || u.oc.S != ub.oc.S || u.oc.state != ub.oc.state || u.oc.dir != ub.oc.dir ||
            u.oc.complnum != ub.oc.complnum || u.oc.sort != ub.oc.sort || u.sat != ub.sat || u.dfac != ub.dfac)
            R->violation(pre + "untargeted-changed", "the other connection of the well changes: " + oe_str(ub) + " -> " + oe_str(u) + ctx, rp);
        char b[200]; std::snprintf(b, sizeof b, "e|%d|%d|%d|%d|%.12g|%.12g|%.12g|%.12g", t.oc.dir, t.oc.state, t.sat, (int)st, t.dfac, t.oc.CF, t.oc.Kh, t.oc.r0);
        R->observe(std::string(b));
    }
    if (R->samples.size() < 6 && symmetric_dir_change && timing == 1 && f == 0 && k == dir) R->sample_str(cs + "  => " + units()[ui].name + ": " + rec_full(base, ui, k).substr(0, 60) + " ... re-entered next step as " + rec_full(next, ui, k).substr(0, 60) + " -> " + oe_str(B.steps.back()[0]));
}
static int e_nunits() { return R->thorough() ? 4 : 2; }
static void part_e() {
    for (int ui = 0; ui < e_nunits(); ++ui) {
        std::optional<Env> env;
        for (int k = 0; k < 3; ++k) for (int dir = 0; dir < 3; ++dir) for (int f = 0; f < E_NFORM; ++f) for (int m = 0; m < E_NMUT; ++m) for (int timing = 0; timing < 2; ++timing) {
            if (!R->mine()) continue;
            if (R->timed_out()) return;
            if (!env) env.emplace(make_env(units()[ui], 2, 2, e_layers(), 4));
            run_e_case(*env, ui, k, dir, f, m, timing, false);
        }
    }
}
static void replay_e(const std::string& cs) {
    std::istringstream ss(cs); std::string part; int ui, k, dir, f, m, timing; ss >> part >> ui >> k >> dir >> f >> m >> timing;
    Env env = make_env(units()[ui], 2, 2, e_layers(), 4);
    run_e_case(env, ui, k, dir, f, m, timing, true);
}

// ------------------------------------------------------------------ part c ---
// One well 'W' with head (1,1) in a 2x2x3 grid; every connection lies in column (1,1): A = layer 1, C = layer 2, B = layer 3.
static const std::vector<Cell>& layers() {
    static const std::vector<Cell> l = {
        {{100.0, 60.0,  8.0}, {200.0,  50.0,  5.0}, 0.6},
        {{100.0, 60.0,  5.0}, { 80.0, 300.0,  8.0}, 1.0},
        {{100.0, 60.0, 12.0}, { 20.0,  10.0, 40.0}, 0.8},
    };
    return l;
}
enum EvType { E_DATES, E_COMPDAT, E_WPI_ALL, E_WPI_IJK, E_WPI_COMPL, E_WELOPEN_K, E_WELOPEN_COMPL, E_COMPLUMP };
struct Ev {
    const char* name; EvType type;
    int k1 = 0, k2 = 0;          // zero-based layer range (COMPDAT, COMPLUMP, WPIMULT/WELOPEN by K: k1)
    int c1 = 0, c2 = 0;          // completion range / COMPLUMP number (c1)
    double factor = 1; int state = 0;
    In in;                       // COMPDAT
};
static std::vector<Ev> make_events() {
    std::vector<Ev> v;
    v.push_back({"DATES", E_DATES});
    { Ev e{"COMPDAT_A", E_COMPDAT}; e.k1 = e.k2 = 0; e.in.di = true; v.push_back(e); }
    { Ev e{"COMPDAT_B", E_COMPDAT}; e.k1 = e.k2 = 2; e.in.di = true; e.in.dir = 1; v.push_back(e); }
    { Ev e{"COMPDAT_A_newCF", E_COMPDAT}; e.k1 = e.k2 = 0; e.in.di = true; e.in.cf = CF_EXP; e.in.CF = 12.5 * si::cP / (si::day * si::bar); v.push_back(e); }
    { Ev e{"COMPDAT_K1-3", E_COMPDAT}; e.k1 = 0; e.k2 = 2; e.in.di = true; e.in.Dm = 0.3; e.in.sk = 1; v.push_back(e); }
    { Ev e{"COMPDAT_C_shut", E_COMPDAT}; e.k1 = e.k2 = 1; e.in.dir = 0; e.in.kh = KH_EXP; e.in.Kh = 900.0 * si::mD; e.in.state = 1; v.push_back(e); }
    { Ev e{"WPIMULT_well", E_WPI_ALL}; e.factor = 2.0; v.push_back(e); }
    { Ev e{"WPIMULT_well_b", E_WPI_ALL}; e.factor = 0.25; v.push_back(e); }
    { Ev e{"WPIMULT_ijk", E_WPI_IJK}; e.k1 = 0; e.factor = 3.0; v.push_back(e); }
    { Ev e{"WPIMULT_compl", E_WPI_COMPL}; e.c1 = 2; e.c2 = 3; e.factor = 0.5; v.push_back(e); }
    { Ev e{"WELOPEN_shutB", E_WELOPEN_K}; e.k1 = 2; e.state = 1; v.push_back(e); }
    { Ev e{"WELOPEN_openB", E_WELOPEN_K}; e.k1 = 2; e.state = 0; v.push_back(e); }
    { Ev e{"WELOPEN_openAll", E_WELOPEN_K}; e.k1 = -1; e.state = 0; v.push_back(e); }
    { Ev e{"WELOPEN_shutC2", E_WELOPEN_COMPL}; e.c1 = 2; e.c2 = 2; e.state = 1; v.push_back(e); }
    { Ev e{"COMPLUMP", E_COMPLUMP}; e.k1 = 0; e.k2 = 1; e.c1 = 2; v.push_back(e); }
    return v;
}
static std::vector<Ev> g_ev;

struct Regime { const char* name; bool input_order; int unit; };
static const std::vector<Regime>& regimes() {
    static const std::vector<Regime> r = {{"track-metric", false, 0}, {"input-field", true, 1}, {"input-metric", true, 0}, {"track-field", false, 1}, {"track-lab", false, 2}};
    return r;
}

static std::string render_event(const Ev& e, const Unit& u, int& month, int& year) {
    switch (e.type) {
    case E_DATES: { static const char* mn[] = {"JAN", "FEB", "MAR", "APR", "MAY", "JUN", "JUL", "AUG", "SEP", "OCT", "NOV", "DEC"}; if (++month > 12) { month = 1; ++year; } return std::string("DATES\n 1 ") + mn[month - 1] + " " + std::to_string(year) + " /\n/\n"; }
    case E_COMPDAT: return "COMPDAT\n" + compdat_rec("W", 1, 1, e.k1 + 1, e.k2 + 1, tokens(e.in, u), e.in.dir, e.in.state) + "/\n";
    case E_WPI_ALL: return "WPIMULT\n 'W' " + vf::fmt17(e.factor) + " /\n/\n";
    case E_WPI_IJK: return "WPIMULT\n 'W' " + vf::fmt17(e.factor) + " 1 1 " + std::to_string(e.k1 + 1) + " /\n/\n";
    case E_WPI_COMPL: return "WPIMULT\n 'W' " + vf::fmt17(e.factor) + " 3* " + std::to_string(e.c1) + " " + std::to_string(e.c2) + " /\n/\n";
    case E_WELOPEN_K: return std::string("WELOPEN\n 'W' ") + (e.state ? "SHUT" : "OPEN") + " 0 0 " + std::to_string(e.k1 + 1) + " /\n/\n";
    case E_WELOPEN_COMPL: return std::string("WELOPEN\n 'W' ") + (e.state ? "SHUT" : "OPEN") + " 0 0 0 " + std::to_string(e.c1) + " " + std::to_string(e.c2) + " /\n/\n";
    case E_COMPLUMP: return "COMPLUMP\n 'W' 1 1 " + std::to_string(e.k1 + 1) + " " + std::to_string(e.k2 + 1) + " " + std::to_string(e.c1) + " /\n/\n";
    }
    return "";
}
static std::string render_hist(const Env& env, const Regime& rg, const std::vector<int>& h) {
    std::string s = env.grid + "WELSPECS\n 'W' 'G' 1 1 1* OIL /\n/\n";
    if (rg.input_order) s += "COMPORD\n 'W' INPUT /\n/\n";
    int month = 1, year = 2020;
    for (int e : h) s += render_event(g_ev[e], units()[rg.unit], month, year);
    return s + "END\n";
}
static std::string hist_str(const std::vector<int>& h) { std::string o; for (int e : h) { if (!o.empty()) o += ' '; o += g_ev[e].name; } return o; }

struct Built { bool ok = false; std::vector<OC> conns; std::string err; };
static Built build_hist(const Env& env, const Regime& rg, const std::vector<int>& h) {
    Built b;
    try {
        auto deck = g_parser->parseString(render_hist(env, rg, h));
        auto sched = std::make_unique<Schedule>(deck, *env.es, g_python);     // never copied / moved
        const auto& conns = sched->getWell("W", sched->size() - 1).getConnections();
        for (const auto& c : conns) b.conns.push_back(observe(c));
        b.ok = true;
    } catch (const std::exception& e) { b.err = std::string(e.what()).substr(0, 300); }
    return b;
}

// ---- reference model of the connection list
struct RC { int k, complnum; std::size_t sort; double CF, Kh, r0, rw, S; int state, dir; };
struct RefState { std::vector<RC> conns; std::vector<int> targeted_k; bool last_all = false; bool deferral_matters = false; };
static RefState simulate(const Regime& rg, const std::vector<int>& h) {
    RefState st; std::optional<double> pending;      // whole-well WPIMULT: last record of the report step, applied when the step ends
    auto flush = [&]() { if (pending) for (auto& c : st.conns) c.CF *= *pending; pending.reset(); };
    for (size_t n = 0; n < h.size(); ++n) {
        const Ev& e = g_ev[h[n]];
        st.targeted_k.clear(); st.last_all = false; st.deferral_matters = false;
        switch (e.type) {
        case E_DATES: flush(); break;
        case E_COMPDAT:
            for (int k = e.k1; k <= e.k2; ++k) {
                const Ref r = reference(layers()[k], e.in);
                auto it = std::find_if(st.conns.begin(), st.conns.end(), [&](const RC& c) { return c.k == k; });
                if (it == st.conns.end()) { const int n0 = (int)st.conns.size(); st.conns.push_back({k, n0 + 1, (std::size_t)n0, r.CF, r.Kh, r.r0, r.rw, r.S, e.in.state, e.in.dir}); }
                else { *it = RC{k, it->complnum, it->sort, r.CF, r.Kh, r.r0, r.rw, r.S, e.in.state, e.in.dir}; }
                st.targeted_k.push_back(k);
            }
            if (!rg.input_order) std::stable_sort(st.conns.begin(), st.conns.end(), [](const RC& a, const RC& b) { return a.k < b.k; });   // TRACK in one column = by depth
            if (pending) st.deferral_matters = true;
            break;
        case E_WPI_ALL: if (pending && *pending != e.factor) st.deferral_matters = true; pending = e.factor; st.last_all = true; break;
        case E_WPI_IJK: for (auto& c : st.conns) if (c.k == e.k1) { c.CF *= e.factor; st.targeted_k.push_back(c.k); } break;
        case E_WPI_COMPL: for (auto& c : st.conns) if (c.complnum >= e.c1 && c.complnum <= e.c2) { c.CF *= e.factor; st.targeted_k.push_back(c.k); } break;
        case E_WELOPEN_K: for (auto& c : st.conns) if (e.k1 < 0 || c.k == e.k1) { c.state = e.state; st.targeted_k.push_back(c.k); } break;
        case E_WELOPEN_COMPL: for (auto& c : st.conns) if (c.complnum >= e.c1 && c.complnum <= e.c2) { c.state = e.state; st.targeted_k.push_back(c.k); } break;
        case E_COMPLUMP: for (auto& c : st.conns) if (c.k >= e.k1 && c.k <= e.k2) { c.complnum = e.c1; st.targeted_k.push_back(c.k); } break;
        }
    }
    flush();
    return st;
}

// which connections of the library's own parent state does event e address?
static bool targets(const Ev& e, const OC& c) {
    switch (e.type) {
    case E_DATES: return false;
    case E_COMPDAT: case E_COMPLUMP: return c.i == 0 && c.j == 0 && c.k >= e.k1 && c.k <= e.k2;
    case E_WPI_ALL: return true;
    case E_WPI_IJK: return c.i == 0 && c.j == 0 && c.k == e.k1;
    case E_WELOPEN_K: return e.k1 < 0 || c.k == e.k1;
    case E_WPI_COMPL: case E_WELOPEN_COMPL: return c.complnum >= e.c1 && c.complnum <= e.c2;
    }
    return false;
}

// checks the transition h -> h.e;  P = library state after h, C = library state after h.e
static void check_transition(const Regime& rg, const std::vector<int>& h2, const Built& P, const Built& C) {
    const Ev& e = g_ev[h2.back()];
    const std::string cs = std::string("c ") + rg.name + " " + vf::join_ints(h2, " ");
    const std::string rp = "{\"case\": " + vf::jstr(cs) + ", \"history\": " + vf::jstr(hist_str(h2)) + "}";
    const std::string pre = std::string("C06:seq:") + e.name + ":";
    const std::string ctx = " in [" + hist_str(h2) + "] (" + rg.name + ")";
    // ---- frame condition on the library's own states
    std::vector<const OC*> keptP, keptC;
    for (const auto& p : P.conns) {
        if (targets(e, p)) continue;
        auto it = std::find_if(C.conns.begin(), C.conns.end(), [&](const OC& c) { return c.i == p.i && c.j == p.j && c.k == p.k; });
        if (it == C.conns.end()) { R->violation(pre + "untargeted-connection-lost", "connection " + oc_str(p) + " disappears" + ctx, rp); continue; }
        keptP.push_back(&p);
        auto diff = [&](const char* what) { R->violation(pre + "untargeted-" + what, std::string("untargeted connection changes its ") + what + ": " + oc_str(p) + " -> " + oc_str(*it) + ctx, rp); };
        if (it->complnum != p.complnum) diff("complnum");
        if (it->sort != p.sort) diff("sort_value");
        if (it->CF != p.CF) diff("CF");
        if (it->Kh != p.Kh) diff("Kh");
        if (it->state != p.state) diff("state");
        if (it->r0 != p.r0 || it->rw != p.rw || it->S != p.S) diff("r0-rw-skin");
    }
    if (!keptP.empty()) R->count("c_transitions_with_untargeted_connections_checked");
    if (keptP.size() < P.conns.size()) R->count("c_transitions_with_targeted_connections");
    if (C.conns.size() > P.conns.size()) R->count("c_transitions_adding_connections");
    for (const auto& c : C.conns) for (const OC* p : keptP) if (p->k == c.k && p->i == c.i && p->j == c.j) keptC.push_back(p);
    if (keptC != keptP) R->violation(pre + "untargeted-order", "relative order of the untargeted connections changes" + ctx, rp);
    // ---- agreement with the reference model (targeted and new connections, count, order)
    const RefState ref = simulate(rg, h2);
    const RefState refP = simulate(rg, std::vector<int>(h2.begin(), h2.end() - 1));
    // a field is judged in this transition only if the parent state agreed with the parent reference on it:
    // a wrong value is reported once, where it arises, not again after every later event
    auto parent_agreed = [&](int k, int field, double tol) {
        auto lp = std::find_if(P.conns.begin(), P.conns.end(), [&](const OC& c) { return c.k == k; });
        auto rpp = std::find_if(refP.conns.begin(), refP.conns.end(), [&](const RC& c) { return c.k == k; });
        if (lp == P.conns.end() || rpp == refP.conns.end()) return lp == P.conns.end() && rpp == refP.conns.end();
        if (lp->complnum != rpp->complnum) return false;        // completion numbers drive the targeting of later events
        switch (field) {
        case 0: return true;
        case 1: return lp->sort == rpp->sort;
        case 2: return lp->state == rpp->state;
        case 3: return close(lp->CF, rpp->CF, tol);
        case 4: return close(lp->Kh, rpp->Kh, tol);
        case 5: return close(lp->rw, rpp->rw, 1e-12) && close(lp->r0, rpp->r0, tol) && close(lp->S, rpp->S, 1e-12);
        default: return lp->dir == rpp->dir;
        }
    };
    if (ref.deferral_matters) R->count("c_transitions_depending_on_deferred_whole_well_wpimult");
    bool parent_list_ok = refP.conns.size() == P.conns.size();
    for (size_t n = 0; parent_list_ok && n < P.conns.size(); ++n) parent_list_ok = P.conns[n].k == refP.conns[n].k;
    if (!parent_list_ok) { R->count("c_mismatch_inherited_from_parent_state"); return; }
    if (ref.conns.size() != C.conns.size()) { R->violation(pre + "connection-count", "library has " + std::to_string(C.conns.size()) + " connections, reference " + std::to_string(ref.conns.size()) + ctx, rp); return; }
    for (size_t n = 0; n < ref.conns.size(); ++n) {
        const RC& r = ref.conns[n]; const OC& c = C.conns[n];
        if (c.k != r.k || c.i != 0 || c.j != 0) { R->violation(pre + "order", "connection order differs from the reference at position " + std::to_string(n) + ": library " + oc_str(c) + ", reference layer " + std::to_string(r.k + 1) + ctx, rp); return; }
        const bool isnew = std::none_of(P.conns.begin(), P.conns.end(), [&](const OC& p) { return p.k == c.k; });
        const bool tg = ref.last_all || std::find(ref.targeted_k.begin(), ref.targeted_k.end(), r.k) != ref.targeted_k.end();
        const std::string who = isnew ? "new-" : tg ? "targeted-" : "other-";
        auto diff = [&](int field, const char* what, const std::string& exp) {
            if (!parent_agreed(r.k, field, 1e-10)) { R->count("c_mismatch_inherited_from_parent_state"); return; }
            if (!isnew && !tg) { R->count("c_untargeted_mismatch_left_to_frame_oracle"); return; }   // reported bit-exactly by the frame condition above
            R->violation(pre + who + what, std::string(what) + " of " + oc_str(c) + " differs from the reference (" + exp + ")" + ctx, rp);
        };
        if (c.complnum != r.complnum) diff(0, "complnum", std::to_string(r.complnum));
        if (c.sort != r.sort) diff(1, "sort_value", std::to_string(r.sort));
        if (c.state != r.state) diff(2, "state", std::to_string(r.state));
        if (!close(c.CF, r.CF, 1e-10)) diff(3, "CF", vf::fmt17(r.CF));
        if (!close(c.Kh, r.Kh, 1e-10)) diff(4, "Kh", vf::fmt17(r.Kh));
        if (!close(c.rw, r.rw, 1e-12) || !close(c.r0, r.r0, 1e-10) || !close(c.S, r.S, 1e-12)) diff(5, "r0-rw-skin", vf::fmt17(r.r0) + "/" + vf::fmt17(r.rw) + "/" + vf::fmt17(r.S));
        if (c.dir != r.dir) diff(6, "dir", std::to_string(r.dir));
    }
    std::string key;
    for (const auto& c : C.conns) { char b[120]; std::snprintf(b, sizeof b, "%d:%d:%zu:%d:%.12g:%.12g|", c.k, c.complnum, c.sort, c.state, c.CF, c.Kh); key += b; }
    R->observe(std::string(rg.name) + key);
}

static long long g_viol_before_c = 0;
static void dfs(const Env& env, const Regime& rg, std::vector<int>& h, const Built& P, int maxdepth) {
    if ((int)h.size() >= maxdepth || R->timed_out()) return;
    if (R->counters["violations_total"] - g_viol_before_c > 400) { R->exhaustive = false; R->cap_note = "part c stopped after >400 violation instances; "; return; }
    const int depth = (int)h.size();
    for (int e = 0; e < (int)g_ev.size(); ++e) {
        if (depth == 1 && !R->mine()) continue;                       // shard on the second event
        h.push_back(e);
        const bool judge = !(depth == 0 && R->shard != 0);            // first-level transitions are judged by shard 0 only
        R->current(std::string("c ") + rg.name + " " + vf::join_ints(h, " "));
        Built C = build_hist(env, rg, h);
        if (judge) { R->evaluations++; R->count("c_histories"); }
        if (!C.ok) {
            if (judge) R->violation(std::string("C06:seq:") + g_ev[e].name + ":rejected", "history not accepted by the library: " + C.err + " [" + hist_str(h) + "] (" + rg.name + ")",
                                    "{\"case\": " + vf::jstr(std::string("c ") + rg.name + " " + vf::join_ints(h, " ")) + "}");
            h.pop_back(); continue;
        }
        if (judge) { R->transitions++; check_transition(rg, h, P, C); }
        if (judge && R->samples.size() < 6 && depth + 1 == maxdepth && C.conns.size() == 3 && (h[0] * 7 + h[1]) % 23 == 4) R->sample_str(std::string("c ") + rg.name + ": " + hist_str(h) + "  => " + oc_str(C.conns[0]) + " | " + oc_str(C.conns[1]) + " | " + oc_str(C.conns[2]));
        dfs(env, rg, h, C, maxdepth);
        h.pop_back();
    }
}

// regime r is explored to depth c_depth(r)
static int c_nreg() { return R->thorough() ? (int)regimes().size() : 2; }
static int c_depth(int) { return R->thorough() ? 5 : 4; }
static void part_c() {
    const int nreg = c_nreg();
    g_viol_before_c = R->counters["violations_total"];
    for (int r = 0; r < nreg; ++r) {
        const Regime& rg = regimes()[r];
        Env env = make_env(units()[rg.unit], 2, 2, layers(), 4);
        std::vector<int> h; Built P = build_hist(env, rg, h);
        if (!P.ok) { R->violation("C06:harness:base-deck", "base deck of part c does not build: " + P.err); return; }
        dfs(env, rg, h, P, c_depth(r));
    }
}

static void replay_c(const std::string& cs) {
    std::istringstream ss(cs); std::string part, rn; ss >> part >> rn; std::vector<int> h; int x; while (ss >> x) h.push_back(x);
    if (h.empty()) return;
    for (const auto& rg : regimes()) if (rn == rg.name) {
        Env env = make_env(units()[rg.unit], 2, 2, layers(), 4);
        std::vector<int> hp(h.begin(), h.end() - 1);
        Built P = build_hist(env, rg, hp), C = build_hist(env, rg, h);
        std::fprintf(stderr, "%s", render_hist(env, rg, h).c_str());
        for (const auto& c : P.conns) std::fprintf(stderr, "before: %s\n", oc_str(c).c_str());
        for (const auto& c : C.conns) std::fprintf(stderr, "after : %s\n", oc_str(c).c_str());
        R->evaluations++;
        if (!C.ok) { R->violation(std::string("C06:seq:") + g_ev[h.back()].name + ":rejected", C.err); return; }
        if (P.ok) check_transition(rg, h, P, C);
    }
}

int main(int argc, char** argv) {
    vf::Run run("C06", argc, argv); R = &run;
    OpmLog::removeAllBackends();
    Parser parser; g_parser = &parser; g_python = std::make_shared<Python>();
    g_ev = make_events();
    const Alpha A = alpha();
    std::string depths; for (int r = 0; r < c_nreg(); ++r) depths += std::string(r ? ", " : "") + regimes()[r].name + ":" + std::to_string(c_depth(r));
    run.rule = "a: complete product dir{X,Y,Z} x CF{" + std::string(A.ncf == 4 ? "1*,0,explicit,-1" : "1*,0,explicit") + "} x Kh{1*,-1,0,explicit} x diameter{1*,explicit} x r0{1*,explicit} x skin(" + std::to_string(A.nsk) +
               " values incl. negative and 1*) x 2 sets of explicit values x " + std::to_string(A.ncell) + " anisotropic cells x {METRIC,FIELD,LAB,PVT-M}, each record in its own well, judged batched and again alone in its own deck; oracle: independent Peaceman calculation in SI with own exact unit factors: "
               "stored CF(ln(r0/rw)+S)=2piKh to 1e-10, every explicit item stored as given, every defaulted item equal to the cell's Peaceman value (1e-10); "
               "b: the stored CF/Kh/r0 of every case of a fed back (17 digits, deck units) in all 7 subsets, nothing changes (1e-9); "
               "d: input path: the record forms of a (one well per record) on a 4x4x2 grid with pairwise different DX/DY/DZ/PERMX/Y/Z/NTG, wells in the 16 off-diagonal cells (i,j,k),(j,i,k) rotated over the forms by " + std::to_string(d_shifts().size()) +
               " shifts, x {METRIC,FIELD,LAB,PVT-M}, delivered at load time / inside an ACTIONX body applied with Schedule::applyAction at step 0" + (run.thorough() ? " and at step 1" : "") + " / at load time in the report step after an applied action (re-evaluated tail); "
               "oracle of a against the connection's own cell plus own global index and centre depth, and the non-load paths give bit-exactly the load-time connection (CF, Kh, r0, rw, skin, depth, global index, ijk, complnum, sort_value, state, dir); "
               "e: one-item re-entries: base record (5 forms x dir{X,Y,Z}) in a cube/isotropic cell, a DX=DY PERMX=PERMY cell and an anisotropic cell, plus an untargeted connection in the next layer (COMPORD INPUT), re-entered in the same or the next report step with exactly one item changed "
               "(13 mutations: dir to each other direction, OPEN/SHUT, sat table 1*<->2 and 2->1, diameter, skin, Kh value, Kh 1*/0, CF value, CF 1*, r0, D-factor) x " + std::to_string(e_nunits()) + " unit systems; at the re-entry step and both later steps the targeted connection equals the reference of the NEW record "
               "(dir, state, sat table, D-factor, CF/Kh/r0 by the Peaceman oracle for the new direction, rw, skin; complnum and sort_value kept) and the untargeted one is bit-identical to the run without the re-entry; "
               "c: all histories over " + std::to_string(g_ev.size()) + " events on one well, regimes COMPORD TRACK/INPUT x unit system with depth {" + depths + "}; per transition: frame condition on the library's own parent state (untargeted connections keep relative order, complnum, sort_value, CF, Kh, r0, rw, skin, state bit-exactly) "
               "and agreement of the whole connection list with a reference model (new CF by the Peaceman oracle, CF x factor, whole-well WPIMULT = last record of the report step applied at the end of the step, cumulative across steps)";
    run.assumptions = {
        "cells are chosen with Peaceman r0 > rw in every direction and the explicit r0 (9 m) > rw: the clamp ln(r0/min(rw,r0)) in peacemanDenominator is outside the alphabet; a back-computed r0 (CF and Kh both fixed) may be below rw, there the relation is checked with the plain logarithm",
        "a defaulted diameter is taken as 1 ft (E300 default, documented in loadCOMPDAT); the E100 manual has no default",
        "which of CF/Kh/r0 is fixed by the relation follows the COMPDAT manual: CF given + Kh defaulted/negative -> Kh from CF; CF given + Kh = 0 -> Kh from the cell and r0 made compatible (an explicit r0 cannot be honoured); CF and Kh given -> r0 made compatible",
        "part c: whole-well WPIMULT records are deferred to the end of the report step and only the last one counts (comment in handleWPIMULT); a COMPDAT re-entry later in the same step is therefore scaled too - transitions depending on this are counted, the property text does not decide it",
        "part c: all connections lie in one column, where TRACK order is depth order; TRACK re-ordering of deviated wells is not covered",
        "part d: the relation for the over-determined class (CF, Kh, r0 all explicit) is decided in part a only; on the ACTIONX/replay paths that class is judged by the differential comparison with the load-time connection",
        "part d: the action is applied with an empty matching-well set and no target_wellpi; PYACTION is the same applyAction entry point and is not run separately",
        "values outside the alphabets (other explicit CF/Kh/r0/diameter values, D-factor, saturation table item) are not covered"};

    if (!run.replay_path.empty()) {
        if (run.replay_path[0] == 'c') replay_c(run.replay_path); else if (run.replay_path[0] == 'd') replay_d(run.replay_path); else if (run.replay_path[0] == 'e') replay_e(run.replay_path); else replay_ab(run.replay_path);
        return run.finish();
    }
    parts_ab();
    part_d();
    part_e();
    part_c();
    run.states = run.hashes.size();
    return run.finish();
}
