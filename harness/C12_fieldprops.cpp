// C12 — cell property arrays = sequential application of the keyword operations;
// active-cell values independent of which other cells are inactive.
//
// Bounded-exhaustive: every program (sequence of field-property operations in
// deck order) up to a depth over a colliding alphabet is rendered as a deck,
// built with the real Parser/EclipseState for every ACTNUM pattern of the tier
// and judged by
//   (1) a reference interpreter written here (arrays over GLOBAL cells with a
//       per-cell status UNDEF/DEFAULT/VALUE, deck-unit semantics), and
//   (2) the all-active differential (same program, no ACTNUM): equal values on
//       the cells that are active in the masked run.
// A program is legal for an ACTNUM pattern when the reference never reads an
// undefined ACTIVE cell and all documented preconditions hold; illegal programs
// must be rejected by the library and are only counted.
#include "vf.hpp"
#include <opm/common/OpmLog/OpmLog.hpp>
#include <opm/input/eclipse/Deck/Deck.hpp>
#include <opm/input/eclipse/Deck/value_status.hpp>
#include <opm/input/eclipse/EclipseState/Grid/FieldData.hpp>
#include <opm/input/eclipse/EclipseState/EclipseState.hpp>
#include <opm/input/eclipse/EclipseState/Grid/EclipseGrid.hpp>
#include <opm/input/eclipse/EclipseState/Grid/FieldPropsManager.hpp>
#include <opm/input/eclipse/Parser/Parser.hpp>
#include <cmath>
#include <memory>

using namespace Opm;

// ------------------------------------------------------------------ grid ---
struct GridT { int nx, ny, nz; int n() const { return nx * ny * nz; } };
struct BoxT { int i1, i2, j1, j2, k1, k2; };           // 1-based, inclusive
static std::vector<int> box_cells(const GridT& G, const BoxT& b) {   // global indices in box data order (i fastest)
    std::vector<int> c;
    for (int k = b.k1; k <= b.k2; ++k) for (int j = b.j1; j <= b.j2; ++j) for (int i = b.i1; i <= b.i2; ++i)
        c.push_back((i - 1) + (j - 1) * G.nx + (k - 1) * G.nx * G.ny);
    return c;
}
static BoxT full_box(const GridT& G) { return {1, G.nx, 1, G.ny, 1, G.nz}; }
static std::string box_txt(const BoxT& b) { char s[64]; std::snprintf(s, sizeof s, "%d %d %d %d %d %d", b.i1, b.i2, b.j1, b.j2, b.k1, b.k2); return s; }

static const GridT grids[2] = {{2, 2, 2}, {3, 2, 1}};
// five overlapping named boxes A..E per grid
static const BoxT boxes[2][5] = {
    {{1, 2, 1, 1, 1, 2}, {2, 2, 1, 2, 1, 1}, {1, 1, 1, 2, 1, 2}, {1, 2, 2, 2, 1, 1}, {1, 2, 1, 2, 2, 2}},     // 2x2x2: sizes 4 2 4 2 4
    {{1, 2, 1, 1, 1, 1}, {2, 3, 1, 2, 1, 1}, {1, 1, 1, 2, 1, 1}, {2, 2, 1, 2, 1, 1}, {1, 3, 2, 2, 1, 1}}};    // 3x2x1: sizes 2 4 2 2 3
enum { BA, BB, BC, BD, BE };

// ---------------------------------------------------------------- arrays ---
enum Arr { PORO, NTG, PERMX, PERMY, MULTX, MULTNUM, FLUXNUM, SWATINIT, SATNUM, FIPNUM, PRESSURE, SWAT, MULTPV, MULTX_EDIT, NARR };
static const double MD = 9.869232667160130e-16, BAR = 1.0e5;
struct Meta { const char* name; bool is_int; bool has_init; double init; bool has_idef; double idef; double unit; bool global; bool mult; bool top; };
static const Meta meta[NARR] = {
    //  name       int  init      item default  unit  global mult  top
    {"PORO",       0,   0, 0,     1, 0,         1,    0,     0,    1},
    {"NTG",        0,   1, 1,     0, 0,         1,    0,     0,    0},
    {"PERMX",      0,   0, 0,     0, 0,         MD,   1,     0,    1},
    {"PERMY",      0,   0, 0,     1, 0,         MD,   1,     0,    1},
    {"MULTX",      0,   1, 1,     1, 1,         1,    0,     1,    0},
    {"MULTNUM",    1,   1, 1,     0, 0,         1,    0,     0,    0},
    {"FLUXNUM",    1,   0, 0,     0, 0,         1,    0,     0,    0},
    {"SWATINIT",   0,   0, 0,     0, 0,         1,    0,     0,    0},
    {"SATNUM",     1,   1, 1,     0, 0,         1,    0,     0,    0},
    {"FIPNUM",     1,   1, 1,     0, 0,         1,    0,     0,    0},
    {"PRESSURE",   0,   0, 0,     0, 0,         BAR,  0,     0,    0},
    {"SWAT",       0,   0, 0,     0, 0,         1,    0,     0,    0},
    {"MULTPV",     0,   1, 1,     0, 0,         1,    0,     1,    0},     // only in the base deck (zero-pore-volume mechanism)
    {"MULTX@EDIT", 0,   1, 1,     1, 1,         1,    0,     1,    0}};

// ------------------------------------------- inactive-cell pattern + mechanism ---
// How a set of cells is taken out: ACTNUM (act: bit c = cell c active, -1 = no ACTNUM keyword) and/or zero pore
// volume through PORO = 0 (zp), NTG = 0 (zn) or MULTPV = 0 (zm) in the base deck.  Zero-pore-volume cells are ACTIVE
// while GRID and EDIT are processed and are removed (all existing arrays re-compacted) before PROPS/REGIONS/SOLUTION.
struct Pat { long act = -1; unsigned zp = 0, zn = 0, zm = 0; bool late() const { return zp || zn || zm; } };
static std::string pat_str(const Pat& p) { std::string s = std::to_string(p.act); if (p.late()) s += "/" + std::to_string(p.zp) + "/" + std::to_string(p.zn) + "/" + std::to_string(p.zm); return s; }
static Pat pat_parse(const std::string& t) { Pat p; unsigned long a = 0, b = 0, c = 0; long act = -1; int k = std::sscanf(t.c_str(), "%ld/%lu/%lu/%lu", &act, &a, &b, &c); p.act = act; if (k == 4) { p.zp = a; p.zn = b; p.zm = c; } return p; }
static double base_poro(const Pat& p, int c) { return ((p.zp >> c) & 1) ? 0.0 : 0.20 + 0.01 * c; }
static double base_ntg(const Pat& p, int c) { return ((p.zn >> c) & 1) ? 0.0 : 0.80 + 0.02 * c; }
static double base_multpv(const Pat& p, int c) { return ((p.zm >> c) & 1) ? 0.0 : 1.0 + 0.5 * (c % 2); }

// ------------------------------------------------------------------- ops ---
enum Sec { S_GRID, S_EDIT, S_PROPS, S_REGIONS, S_SOLUTION, NSEC };
static const char* sec_name[NSEC] = {"GRID", "EDIT", "PROPS", "REGIONS", "SOLUTION"};
enum Kind { K_ASSIGN, K_BOX, K_ENDBOX, K_BOXED, K_SCALAR, K_COPY, K_OPERATE, K_REGSCALAR, K_COPYREG, K_OPERATER };
struct Ent { int rep; bool def; double v; };
struct Rec { int tgt = -1, src = -1; double val = 0; int box = -1; std::string fn; double a = 0, b = 0; int reg = 0; int set = -1; bool set_default = false; };
struct Op {
    std::string name, cls; Sec sec; Kind kind; std::string kw;   // kw: EQUALS/ADD/... for scalar + region kinds
    int arr = -1, box = -1; std::vector<Ent> data; std::vector<Rec> recs; bool core = true; bool core4 = false; bool unit_nonlinear = false;
    bool late_only = false;   // only in the late-deactivation alphabet (operations after the compaction), not in `all`
};

static std::string num(double v) { char s[40]; std::snprintf(s, sizeof s, "%.10g", v); return s; }
static std::string data_txt(const std::vector<Ent>& d) {
    std::string s;
    for (auto& e : d) { s += ' '; if (e.def) s += std::to_string(e.rep) + "*"; else if (e.rep > 1) s += std::to_string(e.rep) + "*" + num(e.v); else s += num(e.v); }
    return s;
}
static int data_len(const std::vector<Ent>& d) { int n = 0; for (auto& e : d) n += e.rep; return n; }
static std::vector<Ent> seq(int n, double base, double step) { std::vector<Ent> d; for (int k = 0; k < n; ++k) d.push_back({1, false, base + step * k}); return d; }
static int box_size(int g, int b) { return (int)box_cells(grids[g], boxes[g][b]).size(); }

static std::string render(int g, const Op& op) {
    const BoxT* bx = boxes[g];
    auto rbox = [&](int b) { return b < 0 ? std::string("") : " " + box_txt(bx[b]); };
    std::string s;
    switch (op.kind) {
    case K_ASSIGN: s = std::string(meta[op.arr].name) + "\n" + data_txt(op.data) + " /\n"; break;
    case K_BOX: s = "BOX\n " + box_txt(bx[op.box]) + " /\n"; break;
    case K_ENDBOX: s = "ENDBOX\n"; break;
    case K_BOXED: s = "BOX\n " + box_txt(bx[op.box]) + " /\n" + meta[op.arr].name + "\n" + data_txt(op.data) + " /\nENDBOX\n"; break;
    case K_SCALAR: s = op.kw + "\n"; for (auto& r : op.recs) s += std::string(" ") + meta[r.tgt].name + " " + num(r.val) + rbox(r.box) + " /\n"; s += "/\n"; break;
    case K_COPY: s = "COPY\n"; for (auto& r : op.recs) s += std::string(" ") + meta[r.src].name + " " + meta[r.tgt].name + rbox(r.box) + " /\n"; s += "/\n"; break;
    case K_OPERATE: s = "OPERATE\n"; for (auto& r : op.recs) s += std::string(" ") + meta[r.tgt].name + " " + (r.box < 0 ? std::string("6*") : box_txt(bx[r.box])) + " " + r.fn + " " + meta[r.src].name + " " + num(r.a) + " " + num(r.b) + " /\n"; s += "/\n"; break;
    case K_REGSCALAR: s = op.kw + "\n"; for (auto& r : op.recs) s += std::string(" ") + meta[r.tgt].name + " " + num(r.val) + " " + std::to_string(r.reg) + (r.set_default ? "" : std::string(" ") + meta[r.set].name[0]) + " /\n"; s += "/\n"; break;
    case K_COPYREG: s = "COPYREG\n"; for (auto& r : op.recs) s += std::string(" ") + meta[r.src].name + " " + meta[r.tgt].name + " " + std::to_string(r.reg) + (r.set_default ? "" : std::string(" ") + meta[r.set].name[0]) + " /\n"; s += "/\n"; break;
    case K_OPERATER: s = "OPERATER\n"; for (auto& r : op.recs) s += std::string(" ") + meta[r.tgt].name + " " + std::to_string(r.reg) + " " + r.fn + " " + meta[r.src].name + " " + num(r.a) + " " + num(r.b) + " " + meta[r.set].name + " /\n"; s += "/\n"; break;
    }
    return s;
}

// The alphabet.  Ops are created per grid (array data is sized to the grid or to a box).
static std::vector<Op> make_ops(int g) {
    const int n = grids[g].n();
    std::vector<Op> v;
    auto add = [&](Op o) { if (o.cls.empty()) o.cls = o.kw.empty() ? o.name : o.kw; v.push_back(std::move(o)); };
    auto scalar = [&](const std::string& name, Sec sec, const std::string& kw, std::vector<Rec> recs, bool core = true) { Op o; o.name = name; o.sec = sec; o.kind = K_SCALAR; o.kw = kw; o.recs = std::move(recs); o.core = core; add(o); };
    auto rec = [](int tgt, double val, int box) { Rec r; r.tgt = tgt; r.val = val; r.box = box; return r; };
    auto crec = [](int src, int tgt, int box) { Rec r; r.src = src; r.tgt = tgt; r.box = box; return r; };
    auto orec = [](int tgt, int box, const std::string& fn, int src, double a, double b) { Rec r; r.tgt = tgt; r.box = box; r.fn = fn; r.src = src; r.a = a; r.b = b; return r; };
    auto rrec = [](int tgt, double val, int reg, int set, bool dflt) { Rec r; r.tgt = tgt; r.val = val; r.reg = reg; r.set = set; r.set_default = dflt; return r; };
    auto assign = [&](const std::string& name, Sec sec, int arr, std::vector<Ent> d, bool core = true, const std::string& cls = "ASSIGN") { Op o; o.name = name; o.cls = cls; o.sec = sec; o.kind = K_ASSIGN; o.arr = arr; o.data = std::move(d); o.core = core; add(o); };
    auto boxed = [&](const std::string& name, Sec sec, int arr, int box, std::vector<Ent> d, bool core = true) { Op o; o.name = name; o.cls = "ASSIGN"; o.sec = sec; o.kind = K_BOXED; o.arr = arr; o.box = box; o.data = std::move(d); o.core = core; add(o); };

    // ---------------- GRID
    assign("PERMX_all", S_GRID, PERMX, seq(n, 100, 10));
    assign("PERMX_rep_def", S_GRID, PERMX, n == 8 ? std::vector<Ent>{{2, false, 50}, {1, true, 0}, {1, false, 75}, {2, true, 0}, {2, false, 90}}
                                                  : std::vector<Ent>{{2, false, 50}, {1, true, 0}, {1, false, 75}, {1, true, 0}, {1, false, 90}}, true, "ASSIGN");
    assign("PERMX_n4", S_GRID, PERMX, {{1, false, 300}, {1, true, 0}, {1, false, 320}, {1, false, 330}}, true, "ASSIGN");   // fits an open BOX of 4 cells only
    { Op o; o.name = "BOX_A"; o.cls = "BOX"; o.sec = S_GRID; o.kind = K_BOX; o.box = BA; add(o); }
    { Op o; o.name = "BOX_B"; o.cls = "BOX"; o.sec = S_GRID; o.kind = K_BOX; o.box = BB; add(o); }
    { Op o; o.name = "ENDBOX"; o.cls = "ENDBOX"; o.sec = S_GRID; o.kind = K_ENDBOX; add(o); }
    boxed("PORO_inboxC", S_GRID, PORO, BC, seq(box_size(g, BC), 0.30, 0.01));
    scalar("EQUALS_PERMX", S_GRID, "EQUALS", {rec(PERMX, 60, -1)});
    scalar("EQUALS_2rec", S_GRID, "EQUALS", {rec(PORO, 0.31, BA), rec(PERMX, 70, -1)});
    scalar("ADD_PERMX_B", S_GRID, "ADD", {rec(PERMX, 7.5, BB)});
    scalar("MULTIPLY_PERMX_C", S_GRID, "MULTIPLY", {rec(PERMX, 2, BC)});
    scalar("MULTIPLY_MULTX_A", S_GRID, "MULTIPLY", {rec(MULTX, 3, BA)}, false);
    { Op o; o.name = "COPY_PERMX_PERMY_A"; o.sec = S_GRID; o.kind = K_COPY; o.kw = "COPY"; o.recs = {crec(PERMX, PERMY, BA)}; add(o); }
    { Op o; o.name = "COPY_PORO_NTG_B"; o.sec = S_GRID; o.kind = K_COPY; o.kw = "COPY"; o.recs = {crec(PORO, NTG, BB)}; o.core = false; add(o); }
    scalar("MINVALUE_PERMX_E", S_GRID, "MINVALUE", {rec(PERMX, 125, BE)});
    scalar("MAXVALUE_PERMX_B", S_GRID, "MAXVALUE", {rec(PERMX, 105, BB)});
    { Op o; o.name = "OPERATE_MULTA_C"; o.cls = "OPERATE-MULTA"; o.sec = S_GRID; o.kind = K_OPERATE; o.recs = {orec(PERMY, BC, "MULTA", PERMX, 2, 30)}; add(o); }
    assign("MULTNUM_all", S_GRID, MULTNUM, n == 8 ? std::vector<Ent>{{1, false, 1}, {1, false, 2}, {1, false, 1}, {3, false, 2}, {1, false, 1}, {1, false, 2}}
                                                  : std::vector<Ent>{{1, false, 1}, {1, false, 2}, {1, false, 1}, {2, false, 2}, {1, false, 1}});
    scalar("EQUALS_MULTNUM_D", S_GRID, "EQUALS", {rec(MULTNUM, 2, BD)});
    { Op o; o.name = "EQUALREG_PORO"; o.sec = S_GRID; o.kind = K_REGSCALAR; o.kw = "EQUALREG"; o.recs = {rrec(PORO, 0.27, 2, MULTNUM, true)}; add(o); }
    { Op o; o.name = "EQUALREG_PERMX_r1"; o.sec = S_GRID; o.kind = K_REGSCALAR; o.kw = "EQUALREG"; o.recs = {rrec(PERMX, 80, 1, MULTNUM, false)}; add(o); }
    { Op o; o.name = "ADDREG_PERMX"; o.sec = S_GRID; o.kind = K_REGSCALAR; o.kw = "ADDREG"; o.recs = {rrec(PERMX, 25, 1, MULTNUM, false)}; add(o); }
    { Op o; o.name = "MULTIREG_PERMX"; o.sec = S_GRID; o.kind = K_REGSCALAR; o.kw = "MULTIREG"; o.recs = {rrec(PERMX, 3, 2, MULTNUM, false)}; add(o); }
    { Op o; o.name = "COPYREG_PERMX_PERMY"; o.sec = S_GRID; o.kind = K_COPYREG; o.kw = "COPYREG"; Rec r = crec(PERMX, PERMY, -1); r.reg = 2; r.set = MULTNUM; o.recs = {r}; add(o); }
    { Op o; o.name = "OPERATER_MULTA"; o.cls = "OPERATER-MULTA"; o.sec = S_GRID; o.kind = K_OPERATER; Rec r = orec(PERMY, -1, "MULTA", PERMX, 0.5, 10); r.reg = 1; r.set = MULTNUM; o.recs = {r}; add(o); }
    // GRID extras (broad regime only)
    scalar("ADD_PORO", S_GRID, "ADD", {rec(PORO, 0.02, -1)}, false);
    scalar("MAXVALUE_PORO", S_GRID, "MAXVALUE", {rec(PORO, 0.23, -1)}, false);
    scalar("MINVALUE_NTG_C", S_GRID, "MINVALUE", {rec(NTG, 0.85, BC)}, false);
    scalar("EQUALS_PERMY_D", S_GRID, "EQUALS", {rec(PERMY, 45, BD)}, false);
    scalar("MAXVALUE_MULTNUM_B", S_GRID, "MAXVALUE", {rec(MULTNUM, 1, BB)}, false);
    { Op o; o.name = "COPY_PERMX_PERMY"; o.sec = S_GRID; o.kind = K_COPY; o.kw = "COPY"; o.recs = {crec(PERMX, PERMY, -1)}; o.core = false; add(o); }
    { Op o; o.name = "COPY_2rec"; o.sec = S_GRID; o.kind = K_COPY; o.kw = "COPY"; o.recs = {crec(PERMX, PERMY, BE), crec(PORO, NTG, -1)}; o.core = false; add(o); }
    boxed("NTG_inboxE_def", S_GRID, NTG, BE, g == 0 ? std::vector<Ent>{{1, false, 0.9}, {2, true, 0}, {1, false, 0.7}} : std::vector<Ent>{{1, false, 0.9}, {1, true, 0}, {1, false, 0.7}}, false);
    boxed("PERMY_inboxB_def", S_GRID, PERMY, BB, g == 0 ? std::vector<Ent>{{1, false, 410}, {1, true, 0}} : std::vector<Ent>{{1, false, 410}, {1, true, 0}, {2, false, 430}}, false);
    assign("MULTX_grid_def", S_GRID, MULTX, n == 8 ? std::vector<Ent>{{1, false, 0.5}, {3, true, 0}, {2, false, 2}, {1, true, 0}, {1, false, 4}} : std::vector<Ent>{{1, false, 0.5}, {2, true, 0}, {2, false, 2}, {1, false, 4}}, false, "ASSIGN");
    assign("FLUXNUM_all", S_GRID, FLUXNUM, n == 8 ? std::vector<Ent>{{2, false, 1}, {2, false, 2}, {1, false, 1}, {1, false, 2}, {2, false, 1}} : std::vector<Ent>{{2, false, 1}, {2, false, 2}, {1, false, 1}, {1, false, 2}}, false);
    { Op o; o.name = "EQUALREG_PERMX_F"; o.sec = S_GRID; o.kind = K_REGSCALAR; o.kw = "EQUALREG"; o.recs = {rrec(PERMX, 80, 1, FLUXNUM, false)}; o.core = false; add(o); }
    { Op o; o.name = "ADDREG_2rec"; o.sec = S_GRID; o.kind = K_REGSCALAR; o.kw = "ADDREG"; o.recs = {rrec(NTG, 0.05, 1, MULTNUM, true), rrec(PERMX, 4, 2, MULTNUM, true)}; o.core = false; add(o); }
    { Op o; o.name = "MULTIREG_MULTX"; o.sec = S_GRID; o.kind = K_REGSCALAR; o.kw = "MULTIREG"; o.recs = {rrec(MULTX, 2, 1, MULTNUM, false)}; o.core = false; add(o); }
    { Op o; o.name = "EQUALREG_empty"; o.sec = S_GRID; o.kind = K_REGSCALAR; o.kw = "EQUALREG"; o.recs = {rrec(PORO, 0.11, 7, MULTNUM, false)}; o.core = false; add(o); }
    { Op o; o.name = "COPYREG_PORO_NTG"; o.sec = S_GRID; o.kind = K_COPYREG; o.kw = "COPYREG"; Rec r = crec(PORO, NTG, -1); r.reg = 1; r.set = MULTNUM; r.set_default = true; o.recs = {r}; o.core = false; add(o); }
    // OPERATE: each function.  Unit-aware functions on PERMX/PERMY, non-linear ones on dimensionless arrays.
    struct F { const char* fn; int tgt, src; double a, b; int box; };
    const F fs[] = {
        {"MULTA", PERMX, PERMX, 1.5, 20, BB}, {"ADDX", PERMY, PERMX, 12, 0, BA}, {"MAXLIM", PERMX, PERMX, 140, 0, BE}, {"MINLIM", PERMX, PERMX, 115, 0, -1},
        {"COPY", PERMY, PERMX, 0, 0, BD}, {"MULTX", PERMY, PERMX, 4, 0, BE}, {"ABS", PERMX, PERMX, 0, 0, BC}, {"MULTIPLY", NTG, PORO, 0, 0, BA},
        {"POLY", NTG, PORO, 0.5, 2, BB}, {"SLOG", MULTX, PORO, -1, 2, BC}, {"LOG10", MULTX, NTG, 0, 0, BD}, {"LOGE", MULTX, PORO, 0, 0, BE},
        {"INV", MULTX, PORO, 0, 0, BA}, {"MULTP", NTG, PORO, 1.2, 0.5, BC}};
    for (auto& f : fs) { Op o; o.name = std::string("OPERATE_") + f.fn; o.cls = std::string("OPERATE-") + f.fn; o.sec = S_GRID; o.kind = K_OPERATE; o.recs = {orec(f.tgt, f.box, f.fn, f.src, f.a, f.b)}; o.core = false; add(o); }
    { Op o; o.name = "OPERATE_2rec"; o.cls = "OPERATE-MULTA"; o.sec = S_GRID; o.kind = K_OPERATE; o.recs = {orec(PERMY, BA, "MULTA", PERMX, 3, 5), orec(PERMX, -1, "MAXLIM", PERMX, 111, 0)}; o.core = false; add(o); }
    { Op o; o.name = "OPERATE_MULTP_PERM"; o.cls = "OPERATE-MULTP"; o.sec = S_GRID; o.kind = K_OPERATE; o.recs = {orec(PERMY, BC, "MULTP", PERMX, 2, 0.5)}; o.core = false; o.unit_nonlinear = true; add(o); }
    for (const char* fn : {"ADDX", "MAXLIM", "COPY", "MULTIPLY"}) {
        Op o; o.name = std::string("OPERATER_") + fn; o.cls = std::string("OPERATER-") + fn; o.sec = S_GRID; o.kind = K_OPERATER; o.core = false;
        Rec r = std::string(fn) == "MULTIPLY" ? orec(NTG, -1, fn, PORO, 0, 0) : orec(PERMY, -1, fn, PERMX, 130, 0); r.reg = 2; r.set = MULTNUM; o.recs = {r}; add(o);
    }
    // ---------------- EDIT
    scalar("EQUALS_MULTX_edit_B", S_EDIT, "EQUALS", {rec(MULTX, 2, BB)});
    assign("MULTX_edit_def", S_EDIT, MULTX, n == 8 ? std::vector<Ent>{{2, false, 0.25}, {4, true, 0}, {2, false, 8}} : std::vector<Ent>{{2, false, 0.25}, {2, true, 0}, {2, false, 8}}, false, "ASSIGN");
    scalar("MULTIPLY_MULTX_edit", S_EDIT, "MULTIPLY", {rec(MULTX, 5, -1)}, false);
    // ---------------- PROPS
    scalar("EQUALS_SWATINIT_A", S_PROPS, "EQUALS", {rec(SWATINIT, 0.4, BA)}, false);
    scalar("ADD_SWATINIT_A", S_PROPS, "ADD", {rec(SWATINIT, 0.125, BA)}, false);
    boxed("SWATINIT_inboxE", S_PROPS, SWATINIT, BE, seq(box_size(g, BE), 0.5, 0.03125), false);
    // ---------------- REGIONS
    assign("SATNUM_def", S_REGIONS, SATNUM, n == 8 ? std::vector<Ent>{{1, false, 2}, {1, true, 0}, {1, false, 3}, {2, false, 2}, {1, true, 0}, {2, false, 4}}
                                                   : std::vector<Ent>{{1, false, 2}, {1, true, 0}, {1, false, 3}, {2, false, 2}, {1, true, 0}}, true, "ASSIGN");
    scalar("EQUALS_SATNUM_A", S_REGIONS, "EQUALS", {rec(SATNUM, 4, BA)});
    { Op o; o.name = "COPY_SATNUM_FIPNUM_E"; o.sec = S_REGIONS; o.kind = K_COPY; o.kw = "COPY"; o.recs = {crec(SATNUM, FIPNUM, BE)}; add(o); }
    boxed("FIPNUM_inboxB", S_REGIONS, FIPNUM, BB, seq(box_size(g, BB), 3, 1), false);
    scalar("ADD_FIPNUM_C", S_REGIONS, "ADD", {rec(FIPNUM, 2, BC)}, false);
    scalar("MULTIPLY_SATNUM", S_REGIONS, "MULTIPLY", {rec(SATNUM, 2, -1)}, false);
    { Op o; o.name = "COPYREG_SATNUM_FIPNUM"; o.sec = S_REGIONS; o.kind = K_COPYREG; o.kw = "COPYREG"; Rec r = crec(SATNUM, FIPNUM, -1); r.reg = 2; r.set = MULTNUM; o.recs = {r}; o.core = false; add(o); }
    { Op o; o.name = "EQUALREG_SATNUM"; o.cls = "EQUALREG-int"; o.sec = S_REGIONS; o.kind = K_REGSCALAR; o.kw = "EQUALREG"; o.recs = {rrec(SATNUM, 3, 1, MULTNUM, false)}; o.core = false; add(o); }
    // ---------------- SOLUTION
    scalar("EQUALS_PRESSURE_C", S_SOLUTION, "EQUALS", {rec(PRESSURE, 250, BC)});
    scalar("ADD_PRESSURE", S_SOLUTION, "ADD", {rec(PRESSURE, 5, -1)}, false);
    assign("PRESSURE_all", S_SOLUTION, PRESSURE, seq(n, 200, 1.5), false);
    { Op o; o.name = "EQUALREG_PRESSURE"; o.sec = S_SOLUTION; o.kind = K_REGSCALAR; o.kw = "EQUALREG"; o.recs = {rrec(PRESSURE, 300, 1, MULTNUM, true)}; o.core = false; add(o); }
    { Op o; o.name = "OPERATER_PRESSURE_FIP"; o.cls = "OPERATER-ADDX"; o.sec = S_SOLUTION; o.kind = K_OPERATER; Rec r = orec(PRESSURE, -1, "ADDX", PRESSURE, 10, 0); r.reg = 2; r.set = FIPNUM; o.recs = {r}; o.core = false; add(o); }
    // ---------------- operations AFTER the zero-pore-volume compaction, driven by region arrays defined before it (late regimes only)
    {
        const size_t first_late = v.size();
        { Op o; o.name = "EQUALREG_SWATINIT_r2"; o.sec = S_PROPS; o.kind = K_REGSCALAR; o.kw = "EQUALREG"; o.recs = {rrec(SWATINIT, 0.3, 2, MULTNUM, true)}; add(o); }
        { Op o; o.name = "ADDREG_SWATINIT_r1"; o.sec = S_PROPS; o.kind = K_REGSCALAR; o.kw = "ADDREG"; o.recs = {rrec(SWATINIT, 0.0625, 1, MULTNUM, false)}; add(o); }
        { Op o; o.name = "EQUALREG_SWATINIT_F1"; o.sec = S_PROPS; o.kind = K_REGSCALAR; o.kw = "EQUALREG"; o.recs = {rrec(SWATINIT, 0.45, 1, FLUXNUM, false)}; add(o); }
        { Op o; o.name = "OPERATER_SWATINIT"; o.cls = "OPERATER-MULTA"; o.sec = S_PROPS; o.kind = K_OPERATER; Rec r = orec(SWATINIT, -1, "MULTA", SWATINIT, 0.5, 0.125); r.reg = 2; r.set = MULTNUM; o.recs = {r}; add(o); }
        { Op o; o.name = "COPYREG_SATNUM_FIPNUM_r1"; o.sec = S_REGIONS; o.kind = K_COPYREG; o.kw = "COPYREG"; Rec r = crec(SATNUM, FIPNUM, -1); r.reg = 1; r.set = MULTNUM; r.set_default = true; o.recs = {r}; add(o); }
        { Op o; o.name = "MULTIREG_PRESSURE_r2"; o.sec = S_SOLUTION; o.kind = K_REGSCALAR; o.kw = "MULTIREG"; o.recs = {rrec(PRESSURE, 1.5, 2, MULTNUM, false)}; add(o); }
        scalar("MULTIPLY_PRESSURE_A", S_SOLUTION, "MULTIPLY", {rec(PRESSURE, 2, BA)});
        { Op o; o.name = "COPY_SWATINIT_SWAT_B"; o.sec = S_SOLUTION; o.kind = K_COPY; o.kw = "COPY"; o.recs = {crec(SWATINIT, SWAT, BB)}; add(o); }
        { Op o; o.name = "COPYREG_SWATINIT_SWAT_r1"; o.sec = S_SOLUTION; o.kind = K_COPYREG; o.kw = "COPYREG"; Rec r = crec(SWATINIT, SWAT, -1); r.reg = 1; r.set = MULTNUM; o.recs = {r}; add(o); }
        scalar("EQUALS_SWATINIT", S_PROPS, "EQUALS", {rec(SWATINIT, 0.2, -1)});
        for (size_t i = first_late; i < v.size(); ++i) { v[i].core = false; v[i].late_only = true; }
    }
    // pruned alphabet for the depth-4 regime (PERMX-centred: undefined cells, all-cells storage, boxes, regions)
    for (auto& o : v) for (const char* nm : {"PERMX_all", "PERMX_rep_def", "PERMX_n4", "BOX_A", "BOX_B", "ENDBOX", "EQUALS_PERMX", "EQUALS_2rec", "ADD_PERMX_B", "MULTIPLY_PERMX_C", "COPY_PERMX_PERMY_A", "MINVALUE_PERMX_E", "OPERATE_MULTA_C", "MULTNUM_all", "EQUALS_MULTNUM_D", "EQUALREG_PERMX_r1", "ADDREG_PERMX", "COPYREG_PERMX_PERMY", "OPERATER_MULTA", "EQUALS_MULTX_edit_B", "SATNUM_def", "EQUALS_PRESSURE_C"}) if (o.name == nm) o.core4 = true;
    return v;
}

// ------------------------------------------------- reference interpreter ---
enum St : unsigned char { UNDEF = 0, DEF = 1, VAL = 2 };
struct RArr { bool exists = false, base = false; std::vector<double> v; std::vector<unsigned char> s; int last_op = -1; };

static double opfun(const std::string& f, double R, double X, double a, double b) {
    if (f == "MULTA") return a * X + b;
    if (f == "POLY") return R + a * std::pow(X, b);
    if (f == "MULTIPLY") return R * X;
    if (f == "SLOG") return std::pow(10.0, a + b * X);
    if (f == "LOG10") return std::log10(X);
    if (f == "LOGE") return std::log(X);
    if (f == "INV") return 1.0 / X;
    if (f == "MULTX") return a * X;
    if (f == "ADDX") return X + a;
    if (f == "COPY") return X;
    if (f == "MAXLIM") return std::min(X, a);
    if (f == "MINLIM") return std::max(X, a);
    if (f == "MULTP") return a * std::pow(X, b);
    if (f == "ABS") return std::fabs(X);
    throw std::logic_error("opfun " + f);
}

struct Ref {
    const GridT& G; unsigned mask; const BoxT* bx;      // mask: cells active NOW (ACTNUM during GRID/EDIT, minus zero-pore-volume cells afterwards)
    unsigned gridmask, revived = 0; Pat pat;
    RArr arr[NARR]; BoxT cur; Sec sec = S_GRID;
    bool illegal = false, strict_illegal = false; std::string why;
    Ref(const GridT& g, const Pat& p, const BoxT* b) : G(g), bx(b), pat(p) {
        mask = gridmask = p.act < 0 ? (1u << G.n()) - 1 : (unsigned)p.act;
        cur = full_box(G); for (auto& a : arr) { a.v.assign(G.n(), 0.0); a.s.assign(G.n(), UNDEF); }
        // base deck: PORO and NTG (and MULTPV for that mechanism) explicitly assigned everywhere (same numbers as deck_text)
        for (int a : {PORO, NTG, MULTPV}) {
            if (a == MULTPV && !p.zm) continue;
            arr[a].exists = arr[a].base = true;
            for (int c = 0; c < G.n(); ++c) { arr[a].v[c] = a == PORO ? base_poro(p, c) : a == NTG ? base_ntg(p, c) : base_multpv(p, c); arr[a].s[c] = VAL; }
        }
    }
    bool act(int g) const { return (mask >> g) & 1u; }
    void fail(const std::string& w) { if (!illegal) why = w; illegal = true; }
    void sfail(const std::string& w) { if (!illegal && !strict_illegal) why = "global-storage: " + w; strict_illegal = true; }
    void ensure(int a) { RArr& A = arr[a]; if (A.exists) return; A.exists = true; if (meta[a].has_init) { std::fill(A.v.begin(), A.v.end(), meta[a].init); std::fill(A.s.begin(), A.s.end(), (unsigned char)DEF); } }
    bool valid_active(int a) const { for (int g = 0; g < G.n(); ++g) if (act(g) && arr[a].s[g] == UNDEF) return false; return true; }
    // reading cell g of array a inside a box operation; returns true when the cell has no value
    bool undef_read(int a, int g, const char* what) {
        if (arr[a].s[g] != UNDEF) return false;
        if (act(g)) fail(std::string(what) + " reads undefined active cell of " + meta[a].name);
        else if (meta[a].global) sfail(std::string(what) + " reads undefined inactive cell of " + meta[a].name);
        return true;
    }
    int eff(int a) const { return (sec == S_EDIT && a == MULTX) ? (int)MULTX_EDIT : a; }

    void enter(Sec s) {
        while (sec < s) {
            if (sec == S_EDIT && arr[MULTX_EDIT].exists) {     // end of EDIT: recorded multipliers act on the GRID values
                ensure(MULTX);
                for (int g = 0; g < G.n(); ++g) arr[MULTX].v[g] *= arr[MULTX_EDIT].v[g];
                arr[MULTX].last_op = arr[MULTX_EDIT].last_op;
            }
            if (sec == S_EDIT) {                              // after EDIT: cells with zero pore volume (PORO*NTG*MULTPV) leave the active set
                for (int g = 0; g < G.n(); ++g) {
                    if (!((mask >> g) & 1u)) continue;
                    const double pv = arr[PORO].v[g] * arr[NTG].v[g] * (arr[MULTPV].exists ? arr[MULTPV].v[g] : 1.0);
                    if (pv == 0) mask &= ~(1u << g);
                }
                revived = mask & (pat.zp | pat.zn | pat.zm);      // zeroed in the base deck but given pore volume by the program
            }
            sec = Sec(sec + 1); cur = full_box(G);          // the input box does not survive a section
        }
    }
    void finish() { enter(S_SOLUTION); if (sec == S_SOLUTION) { /* nothing after SOLUTION */ } }

    void assign(int a0, const std::vector<Ent>& data, int opi) {
        const int a = eff(a0); ensure(a); RArr& A = arr[a];
        std::vector<int> cells = box_cells(G, cur);
        if (data_len(data) != (int)cells.size()) { fail("array length does not match the input box"); return; }
        std::vector<unsigned char> expl(G.n(), 0);
        size_t k = 0;
        for (auto& e : data) for (int r = 0; r < e.rep; ++r, ++k) {
            const int g = cells[k];
            if (!e.def) { A.v[g] = e.v * meta[a].unit; A.s[g] = VAL; expl[g] = 1; }
            else if (meta[a].has_idef && A.s[g] == UNDEF) { A.v[g] = meta[a].idef * meta[a].unit; A.s[g] = DEF; }
        }
        if (sec == S_GRID && meta[a].top && !valid_active(a)) {       // keyword default: top layer values fill unset cells below
            for (int g = 0; g < G.n(); ++g) {
                if (!act(g) || A.s[g] != UNDEF) continue;
                const int t = g % (G.nx * G.ny);
                if (expl[t]) { A.v[g] = A.v[t]; A.s[g] = DEF; }
            }
        }
        A.last_op = opi;
    }
    void scalar_cell(const std::string& kw, RArr& A, int g, double sv) {
        if (kw == "ADD" || kw == "ADDREG") A.v[g] += sv;
        else if (kw == "MULTIPLY" || kw == "MULTIREG") A.v[g] *= sv;
        else if (kw == "MINVALUE") A.v[g] = std::max(A.v[g], sv);
        else if (kw == "MAXVALUE") A.v[g] = std::min(A.v[g], sv);
    }
    double scalar_value(const std::string& kw, int a, double raw) const {
        if (meta[a].is_int) return (double)(int)raw;
        return (kw == "MULTIPLY" || kw == "MULTIREG") ? raw : raw * meta[a].unit;
    }
    // region cell list: ACTIVE cells whose region value equals id (the library never touches inactive cells in region operations)
    bool region_cells(int set, int id, std::vector<int>& cells) {
        ensure(set);
        if (!valid_active(set)) { fail(std::string("region set ") + meta[set].name + " not fully defined"); return false; }
        for (int g = 0; g < G.n(); ++g) if (act(g) && arr[set].v[g] == id) cells.push_back(g);
        return true;
    }
    void operate_cells(const Rec& r, const std::vector<int>& cells, bool boxop) {
        const int t = eff(r.tgt), s = eff(r.src); RArr &T = arr[t], &S = arr[s];
        const bool check_target = r.fn == "MULTIPLY" || r.fn == "POLY";
        for (int g : cells) {
            bool us = false, ut = false;
            if (S.s[g] == UNDEF) { us = true; if (act(g)) fail("OPERATE reads undefined active cell of source"); else if (boxop && meta[t].global) sfail("OPERATE reads undefined inactive source cell"); }
            if (check_target && T.s[g] == UNDEF) { ut = true; if (act(g)) fail("OPERATE reads undefined active cell of target"); else if (boxop && meta[t].global) sfail("OPERATE reads undefined inactive target cell"); }
            if (us || ut) continue;
            const double Rd = T.v[g] / meta[t].unit, Xd = S.v[g] / meta[s].unit;      // documented: functions act on deck-unit values
            T.v[g] = opfun(r.fn, Rd, Xd, r.a, r.b) * meta[t].unit; T.s[g] = S.s[g];
        }
    }

    void apply(const Op& op, int opi) {
        enter(op.sec);
        switch (op.kind) {
        case K_ASSIGN: assign(op.arr, op.data, opi); break;
        case K_BOX: cur = bx[op.box]; break;
        case K_ENDBOX: cur = full_box(G); break;
        case K_BOXED: cur = bx[op.box]; assign(op.arr, op.data, opi); cur = full_box(G); break;
        case K_SCALAR: {
            BoxT b = cur;
            for (auto& r : op.recs) {
                if (r.box >= 0) b = bx[r.box];
                const int a = eff(r.tgt);
                if (op.kw != "EQUALS" && !meta[a].mult && !arr[a].exists) { fail(std::string("target ") + meta[a].name + " must already exist"); return; }
                ensure(a); RArr& A = arr[a];
                const double sv = scalar_value(op.kw, a, r.val);
                for (int g : box_cells(G, b)) {
                    if (op.kw == "EQUALS") { A.v[g] = sv; A.s[g] = VAL; continue; }
                    if (undef_read(a, g, op.kw.c_str())) continue;
                    scalar_cell(op.kw, A, g, sv);
                }
                A.last_op = opi;
            }
            break; }
        case K_COPY: {
            BoxT b = cur;
            for (auto& r : op.recs) {
                if (r.box >= 0) b = bx[r.box];
                const int s = r.src, t = r.tgt;
                if (!arr[s].exists) { fail("COPY source does not exist"); return; }
                if (!valid_active(s)) { fail("COPY source not fully defined"); return; }
                ensure(t); RArr &S = arr[s], &T = arr[t];
                for (int g : box_cells(G, b)) {
                    if (S.s[g] != VAL) {      // the library copies explicitly assigned values only
                        if (act(g)) fail("COPY of a cell that was never explicitly assigned");
                        else if (meta[t].global) sfail("COPY of an unassigned inactive cell");
                        continue;
                    }
                    T.v[g] = S.v[g]; T.s[g] = VAL;
                }
                if (meta[t].global && !meta[s].global) fail("COPY between arrays with different storage");
                T.last_op = opi;
            }
            break; }
        case K_OPERATE: {
            BoxT b = cur;
            for (auto& r : op.recs) {
                if (r.box >= 0) b = bx[r.box];
                ensure(eff(r.tgt)); ensure(eff(r.src));
                operate_cells(r, box_cells(G, b), true);
                if (meta[r.tgt].global && !meta[r.src].global) fail("OPERATE between arrays with different storage");
                arr[eff(r.tgt)].last_op = opi;
            }
            break; }
        case K_REGSCALAR: {
            for (auto& r : op.recs) {
                const int a = r.tgt; RArr& A = arr[a];
                // double targets are created by the mere mention; integer targets only when the record has an effect (the library
                // skips region records on integer arrays altogether, known finding C12:EQUALREG-int:*; an empty region defines nothing)
                if (!meta[a].is_int) ensure(a);
                std::vector<int> cells; if (!region_cells(r.set, r.reg, cells)) return;
                if (cells.empty()) continue;
                ensure(a);
                const double sv = scalar_value(op.kw, a, r.val);
                for (int g : cells) {
                    if (op.kw == "EQUALREG") { A.v[g] = sv; A.s[g] = VAL; continue; }
                    if (A.s[g] == UNDEF) { fail(op.kw + " reads undefined active cell"); continue; }
                    scalar_cell(op.kw, A, g, sv);
                }
                A.last_op = opi;
            }
            break; }
        case K_COPYREG: {
            for (auto& r : op.recs) {
                std::vector<int> cells; if (!region_cells(r.set, r.reg, cells)) return;
                const int s = r.src, t = r.tgt;
                if (!arr[s].exists) { fail("COPYREG source does not exist"); return; }
                if (!valid_active(s)) { fail("COPYREG source not fully defined"); return; }
                ensure(t);
                for (int g : cells) { if (arr[s].s[g] != VAL) { fail("COPYREG of a cell that was never explicitly assigned"); continue; } arr[t].v[g] = arr[s].v[g]; arr[t].s[g] = VAL; }
                arr[t].last_op = opi;
            }
            break; }
        case K_OPERATER: {
            for (auto& r : op.recs) {
                ensure(r.tgt);
                std::vector<int> cells; if (!region_cells(r.set, r.reg, cells)) return;
                if (cells.empty()) continue;
                ensure(r.src);
                operate_cells(r, cells, false);
                arr[r.tgt].last_op = opi;
            }
            break; }
        }
    }
};

// ---------------------------------------------------------- library side ---
struct LibArr {
    bool has = false;             // has_double/has_int: array present and fully defined
    bool partial = false;         // double array exists in the library but is not fully defined (seen through get_double_field_data)
    bool fd = false, store = false;   // per-cell status known / array has all-cells ("global") storage
    std::vector<double> v, gv, sv;    // by GLOBAL cell: get_*() values, get_global_*() values, all-cells storage values
    std::vector<unsigned char> def, sdef;   // by GLOBAL cell: active-cell array / all-cells storage holds a value
};
struct LibRes { bool threw = false; std::string err; int nactive = -1; unsigned actmask = 0; LibArr a[NARR]; };

static int popcnt(unsigned m) { int c = 0; while (m) { c += m & 1; m >>= 1; } return c; }
static Parser* g_parser;
static vf::Run* R;

static std::string deck_text(int g, const Pat& pat, const std::vector<Op>& ops, const std::vector<int>& prog) {
    const long mask = pat.act;
    const GridT& G = grids[g]; const int n = G.n();
    std::string s = "RUNSPEC\nTITLE\n C12\nDIMENS\n " + std::to_string(G.nx) + " " + std::to_string(G.ny) + " " + std::to_string(G.nz) + " /\nMETRIC\nOIL\nWATER\nGRIDOPTS\n YES 4 /\nTABDIMS\n 8 8 /\nREGDIMS\n 8 /\n";
    s += "GRID\nDX\n " + std::to_string(n) + "*100 /\nDY\n " + std::to_string(n) + "*100 /\nDZ\n " + std::to_string(n) + "*10 /\nTOPS\n " + std::to_string(G.nx * G.ny) + "*2000 /\n";
    if (mask >= 0) { s += "ACTNUM\n"; for (int c = 0; c < n; ++c) s += ((mask >> c) & 1) ? " 1" : " 0"; s += " /\n"; }
    { std::vector<Ent> po, nt, mp; for (int c = 0; c < n; ++c) { po.push_back({1, false, base_poro(pat, c)}); nt.push_back({1, false, base_ntg(pat, c)}); mp.push_back({1, false, base_multpv(pat, c)}); }
      s += "PORO\n" + data_txt(po) + " /\nNTG\n" + data_txt(nt) + " /\n"; if (pat.zm) s += "MULTPV\n" + data_txt(mp) + " /\n"; }
    int sec = S_GRID;
    for (int p : prog) { while (sec < ops[p].sec) { ++sec; s += std::string(sec_name[sec]) + "\n"; } s += render(g, ops[p]); }
    while (sec < S_SOLUTION) { ++sec; s += std::string(sec_name[sec]) + "\n"; }
    s += "SCHEDULE\nEND\n";
    return s;
}

static LibRes run_lib(int g, const Pat& pat, const std::vector<Op>& ops, const std::vector<int>& prog) {
    LibRes r;
    bool want_partial[NARR] = {}; for (int p : prog) { if (ops[p].arr >= 0) want_partial[ops[p].arr] = true; for (auto& rc : ops[p].recs) { if (rc.tgt >= 0) want_partial[rc.tgt] = true; if (rc.src >= 0) want_partial[rc.src] = true; } } const GridT& G = grids[g]; const int n = G.n();
    unsigned m = 0; want_partial[PORO] = want_partial[NTG] = true; if (pat.zm) want_partial[MULTPV] = true;
    R->evaluations++;
    try {
        auto deck = g_parser->parseString(deck_text(g, pat, ops, prog));
        EclipseState es(deck);
        const auto& fp = es.fieldProps();
        r.nactive = (int)fp.active_size();
        {   // the library's own final active set maps active indices to cells; it is compared with the reference's in judge()
            const auto& an = es.getInputGrid().getACTNUM();
            if ((int)an.size() != n) throw std::runtime_error("C12-harness: ACTNUM size");
            for (int c = 0; c < n; ++c) if (an[c]) m |= 1u << c;
            r.actmask = m;
            if (popcnt(m) != r.nactive) throw std::runtime_error("C12-harness: grid ACTNUM and field-property active size disagree");
        }
        for (int a = 0; a < MULTX_EDIT; ++a) {
            LibArr& L = r.a[a]; const std::string nm = meta[a].name;
            L.has = meta[a].is_int ? fp.has_int(nm) : fp.has_double(nm);
            if (!L.has) continue;
            L.v.assign(n, 0); L.gv.assign(n, 0);
            if (meta[a].is_int) {
                const auto& d = fp.get_int(nm); const auto gd = fp.get_global_int(nm);
                if ((int)d.size() != r.nactive || (int)gd.size() != n) throw std::runtime_error("C12-harness: size of " + nm);
                int ai = 0; for (int c = 0; c < n; ++c) if ((m >> c) & 1) { L.v[c] = d.at(ai++); L.gv[c] = gd[c]; }
            } else {
                const auto& d = fp.get_double(nm); const auto gd = fp.get_global_double(nm);
                if ((int)d.size() != r.nactive || (int)gd.size() != n) throw std::runtime_error("C12-harness: size of " + nm);
                int ai = 0; for (int c = 0; c < n; ++c) if ((m >> c) & 1) { L.v[c] = d.at(ai++); L.gv[c] = gd[c]; }
            }
        }
        // auxiliary observation: per-cell has-value status of the double arrays the program touches (also when not fully
        // defined), and the all-cells storage of PERMX/PERMY that get_global_double() returns.
        for (int a = 0; a < MULTX_EDIT; ++a) {
            LibArr& L = r.a[a]; if (meta[a].is_int || !want_partial[a]) continue;
            try {
                const auto& fd = fp.get_double_field_data(meta[a].name, true);
                if ((int)fd.data.size() != r.nactive) continue;
                L.fd = true; L.def.assign(n, 0);
                if (!L.has) { L.partial = true; L.v.assign(n, 0); }
                int ai = 0; for (int c = 0; c < n; ++c) if ((m >> c) & 1) { if (!L.has) L.v[c] = fd.data[ai]; L.def[c] = value::has_value(fd.value_status[ai]); ++ai; }
                if (fd.global_data && fd.global_value_status && (int)fd.global_data->size() == n) {
                    L.store = true; L.sv.assign(n, 0); L.sdef.assign(n, 0);
                    for (int c = 0; c < n; ++c) { L.sv[c] = (*fd.global_data)[c]; L.sdef[c] = value::has_value((*fd.global_value_status)[c]); }
                }
            } catch (const std::exception&) {}
        }
    } catch (const std::exception& e) { r.threw = true; r.err = e.what(); }
    catch (...) { r.threw = true; r.err = "non-std exception"; }
    return r;
}

static bool close_rel(double a, double b) { if (a == b) return true; return std::fabs(a - b) <= 1e-12 * std::max(std::fabs(a), std::fabs(b)); }

static std::string prog_str(const std::vector<Op>& ops, const std::vector<int>& prog) { std::string s; for (int p : prog) { s += ops[p].name; s += ' '; } return s; }
static std::string case_str(int g, const Pat& pat, const std::vector<int>& prog) { return std::to_string(g) + " " + pat_str(pat) + (prog.empty() ? "" : " ") + vf::join_ints(prog, " "); }
static std::string first_line(const std::string& s) { std::string t = s.substr(0, 160); for (auto& c : t) if (c == '\n') c = ' '; return t; }

static bool g_verbose = false;

struct Finding { std::string cls, kind, what; };
// Judge one (grid, mask, program) execution.  `full` is the all-active run of the same program (no ACTNUM keyword).
// Findings are returned (not recorded) so that the caller can attribute them to the shortest failing prefix;
// counters and observations only when `count`.
static std::vector<Finding> judge(int g, const Pat& pat, const std::vector<Op>& ops, const std::vector<int>& prog, const LibRes& lib, const LibRes* full, bool count) {
    std::vector<Finding> out;
    const GridT& G = grids[g]; const int n = G.n();
    Ref ref(G, pat, boxes[g]);
    for (size_t i = 0; i < prog.size(); ++i) ref.apply(ops[prog[i]], (int)i);
    ref.finish();
    const unsigned mask = ref.mask;        // final active set according to the reference
    const std::string cs = case_str(g, pat, prog), ps = prog_str(ops, prog);
    const std::string lastcls = prog.empty() ? std::string("BASE") : ops[prog.back()].cls;
    // arrays of the base deck the program never wrote are attributed to BASE
    auto cls_of = [&](int a) { int lo = ref.arr[a].last_op; return lo >= 0 ? ops[prog[lo]].cls : (ref.arr[a].base ? std::string("BASE") : lastcls); };
    if (g_verbose) {
        std::printf("case %s : %s\nreference: %s%s\nlibrary: %s\n", cs.c_str(), ps.c_str(), ref.illegal ? "ILLEGAL " : (ref.strict_illegal ? "ILLEGAL(global storage rule) " : "legal"), ref.why.c_str(), lib.threw ? ("THROWS " + lib.err).c_str() : "ok");
        for (int a = 0; a < MULTX_EDIT; ++a) {
            if (!ref.arr[a].exists && !(lib.a[a].has)) continue;
            std::printf("  %-9s ref:", meta[a].name); for (int c = 0; c < n; ++c) { if (ref.arr[a].s[c] == UNDEF) std::printf(" %s", ref.act(c) ? "undef" : "-"); else std::printf(" %.12g%s", ref.arr[a].v[c], ref.act(c) ? "" : "(i)"); }
            std::printf("\n  %-9s lib:", ""); if (!lib.a[a].has) std::printf(" (not available)"); else for (int c = 0; c < n; ++c) { if (ref.act(c)) std::printf(" %.12g|%.12g", lib.a[a].v[c], lib.a[a].gv[c]); else std::printf(" -"); }
            if (lib.a[a].fd) { std::printf("\n  %-9s st :", ""); for (int c = 0; c < n; ++c) std::printf(" %s%s", ref.act(c) ? (lib.a[a].def[c] ? "val" : "unset") : "-", lib.a[a].store ? (lib.a[a].sdef[c] ? "/store:val" : "/store:unset") : ""); if (lib.a[a].partial) { std::printf("\n  %-9s part:", ""); for (int c = 0; c < n; ++c) std::printf(" %.12g", lib.a[a].v[c]); } }
            std::printf("\n");
        }
    }
    // ---- legality
    if (ref.illegal) {
        if (count) {
            if (lib.threw) R->count("illegal_rejected_by_library");
            else {
                // accepted although illegal for the reference: expected downstream of the top-layer-default handling of defaulted
                // entries (a `n*` entry in the top layer of PORO/PERMX/PERMY becomes a value); anything else is singled out
                bool topdef = false;
                for (int p : prog) if ((ops[p].kind == K_ASSIGN || ops[p].kind == K_BOXED) && meta[ops[p].arr].top) for (auto& e : ops[p].data) topdef = topdef || e.def;
                if (!topdef) { R->count("illegal_but_accepted_unexplained"); if (R->notes["sample_illegal_accepted_unexplained"].size() < 600) R->notes["sample_illegal_accepted_unexplained"] += "[" + cs + ": " + ps + "-> " + ref.why + "] "; }
                R->count("illegal_but_accepted_by_library"); R->count("illegal_accepted: " + ref.why); if (std::getenv("C12_DEBUG")) std::fprintf(stderr, "ILLEGAL-ACCEPTED %s | %s| %s\n", cs.c_str(), ps.c_str(), ref.why.c_str()); if (R->notes["sample_illegal_accepted"].size() < 600) R->notes["sample_illegal_accepted"] += "[" + cs + ": " + ps + "-> " + ref.why + "] "; }
        }
        return out;
    }
    if (lib.threw) {
        if (ref.strict_illegal) { if (count) { R->count("rejected_by_global_storage_rule"); if (std::getenv("C12_DEBUG")) std::fprintf(stderr, "GLOBAL-RULE %s | %s| %s | %s\n", cs.c_str(), ps.c_str(), ref.why.c_str(), first_line(lib.err).c_str()); } return out; }
        out.push_back({lastcls, "throws-on-legal", "library rejects a program the reference deems legal (" + first_line(lib.err) + ")"});
        return out;
    }
    if (count) { if (ref.strict_illegal) R->count("global_storage_rule_not_enforced_by_library"); R->count("legal_compared"); if (std::getenv("C12_OPSTATS")) for (int p : prog) R->count("legal_with:" + ops[p].name); }
    if (lib.actmask != mask) {
        auto bits = [&](unsigned m) { std::string b; for (int c = 0; c < n; ++c) b += ((m >> c) & 1) ? '1' : '0'; return b; };
        out.push_back({pat.late() ? "DEACT" : "harness", "activity", "final active cells " + bits(lib.actmask) + " in the library, " + bits(mask) + " expected (ACTNUM and cells with PORO*NTG*MULTPV = 0 after EDIT)"}); return out;
    }
    if (count && pat.late()) { R->count("late_deactivation_compared"); if (ref.gridmask != mask) R->count("late_deactivation_compared_cells_removed"); if (ref.revived) R->count("late_deactivation_cells_revived_by_program"); }
    // ---- oracle 1: reference
    uint64_t h = 1469598103934665603ull;
    for (int a = 0; a < MULTX_EDIT; ++a) {
        const RArr& A = ref.arr[a]; const LibArr& L = lib.a[a];
        const std::string ty = meta[a].is_int ? "int" : "double";
        if (!A.exists) continue;
        if (A.last_op < 0 && !A.base) continue;      // only referenced (e.g. as region set), never written: nothing to compare
        const bool rvalid = ref.valid_active(a);
        const std::string c0 = cls_of(a), ckw = c0.substr(0, c0.find('-'));   // keyword without the OPERATE function
        const std::string usfx = (A.last_op >= 0 && ops[prog[A.last_op]].unit_nonlinear) ? ":unit" : "";
        bool bad = false;
        if (L.fd) {          // cell by cell (double arrays): has-value status, value, all-cells storage
            for (int c = 0; c < n && !bad; ++c) {
                if (!ref.act(c)) continue;
                const bool rd = A.s[c] != UNDEF;
                if (rd != (bool)L.def[c]) { bad = true; out.push_back({c0, std::string("ref:double:") + (rd ? "cell-missing" : "cell-extra-defined"), std::string(meta[a].name) + " cell " + std::to_string(c) + (rd ? " has a value in the reference (" + vf::fmt17(A.v[c]) + ") but none in the library" : " has a value in the library (" + vf::fmt17(L.v[c]) + ") but none in the reference")}); break; }
                if (!rd) continue;
                h = vf::fnv(&L.v[c], 8, h);
                if (!close_rel(L.v[c], A.v[c])) { bad = true; out.push_back({c0, "ref:double" + usfx, std::string(meta[a].name) + " cell " + std::to_string(c) + " = " + vf::fmt17(L.v[c]) + ", reference " + vf::fmt17(A.v[c]) + (L.has ? "" : " (array not yet fully defined)")}); break; }
                if (L.store && (!L.sdef[c] || !close_rel(L.sv[c], L.v[c]))) { bad = true; out.push_back({ckw, "ref:double:global", std::string(meta[a].name) + " active cell " + std::to_string(c) + ": the all-cells storage behind get_global_double holds " + (L.sdef[c] ? vf::fmt17(L.sv[c]) : "no value (data " + vf::fmt17(L.sv[c]) + ")") + " but the active-cell array and the reference give " + vf::fmt17(L.v[c])}); break; }
            }
            if (bad) continue;
        }
        if (rvalid != L.has) {
            out.push_back({c0, "ref:" + ty + (rvalid ? ":missing" : ":extra-defined"), std::string(meta[a].name) + (rvalid ? " is fully defined on the active cells by the reference but not available from the library" : " is available from the library although the reference leaves active cells undefined")});
            continue;
        }
        if (!rvalid) continue;
        for (int c = 0; c < n; ++c) {
            if (!ref.act(c)) continue;
            if (!L.fd) h = vf::fnv(&L.v[c], 8, h);
            const bool ok1 = meta[a].is_int ? (L.v[c] == A.v[c]) : close_rel(L.v[c], A.v[c]);
            const bool ok2 = meta[a].is_int ? (L.gv[c] == L.v[c]) : close_rel(L.gv[c], L.v[c]);
            if (!ok1) { out.push_back({c0, "ref:" + ty + usfx, "get_" + ty + "(" + meta[a].name + ") cell " + std::to_string(c) + " = " + vf::fmt17(L.v[c]) + ", reference " + vf::fmt17(A.v[c])}); break; }
            if (!ok2) { out.push_back({ckw, "ref:" + ty + ":global", "get_global_" + ty + "(" + meta[a].name + ") cell " + std::to_string(c) + " = " + vf::fmt17(L.gv[c]) + " but get_" + ty + " and the reference give " + vf::fmt17(L.v[c])}); break; }
        }
    }
    if (count) R->observe(h);
    // ---- oracle 2: all-active differential
    if (full && !full->threw) {
        if (count) R->count("allactive_compared");
        for (int a = 0; a < MULTX_EDIT; ++a) {
            const LibArr &L = lib.a[a], &F = full->a[a];
            const std::string ty = meta[a].is_int ? "int" : "double";
            if (F.has && !L.has) { if (ref.arr[a].exists) out.push_back({cls_of(a), "allactive:" + ty + ":missing", std::string(meta[a].name) + " is available on the all-active grid but not when other cells are inactive"}); continue; }
            if (!F.has || !L.has) continue;
            for (int c = 0; c < n; ++c) {
                if (!ref.act(c) || ((ref.revived >> c) & 1)) continue;      // revived cells had another base value: not comparable
                if (L.v[c] != F.v[c] && !(std::isnan(L.v[c]) && std::isnan(F.v[c]))) { out.push_back({cls_of(a), "allactive:" + ty, std::string(meta[a].name) + " cell " + std::to_string(c) + " = " + vf::fmt17(L.v[c]) + " with inactive cells, " + vf::fmt17(F.v[c]) + " on the all-active grid"}); break; }
            }
        }
    } else if (full && count) R->count("allactive_run_rejected_masked_run_legal");
    return out;
}

static std::string replay_json(int g, const Pat& pat, const std::vector<Op>& ops, const std::vector<int>& prog) {
    const GridT& G = grids[g]; const int n = G.n(); std::string b; const long mask = pat.act;
    auto bits = [&](unsigned m) { std::string t; for (int c = 0; c < n; ++c) t += ((m >> c) & 1) ? '1' : '0'; return t; };
    if (mask < 0) b = "none (no ACTNUM keyword)"; else b = bits((unsigned)mask);
    if (pat.late()) b += "; zero PORO " + bits(pat.zp) + " zero NTG " + bits(pat.zn) + " zero MULTPV " + bits(pat.zm);
    return "{\"case\": " + vf::jstr(case_str(g, pat, prog)) + ", \"program\": " + vf::jstr(prog_str(ops, prog)) + ", \"grid\": " + vf::jstr(std::to_string(G.nx) + "x" + std::to_string(G.ny) + "x" + std::to_string(G.nz)) + ", \"actnum_cell0_first\": " + vf::jstr(b) + ", \"deck\": " + vf::jstr(deck_text(g, pat, ops, prog)) + "}";
}

// Record findings of (g, mask, prog).  Keys name the operation class of the SHORTEST prefix that already
// misbehaves (same grid and mask), so that one defect gets one key whatever follows it in longer programs.
static bool is_plain(const Pat& p) { return p.act < 0 && !p.late(); }
static void record(int g, const Pat& mask, const std::vector<Op>& ops, const std::vector<int>& prog, std::vector<Finding> fs) {
    std::vector<int> where = prog;
    for (size_t k = 0; k < prog.size(); ++k) {          // k = 0: the base deck alone (key class BASE)
        std::vector<int> pre(prog.begin(), prog.begin() + k);
        LibRes full = run_lib(g, Pat{}, ops, pre);
        LibRes lib = is_plain(mask) ? full : run_lib(g, mask, ops, pre);
        auto f2 = judge(g, mask, ops, pre, lib, is_plain(mask) ? nullptr : &full, false);
        if (!f2.empty()) { fs = f2; where = pre; break; }
    }
    const std::string rp = replay_json(g, mask, ops, where);
    for (auto& f : fs) {
        R->count("violating_executions");
        R->violation("C12:" + f.cls + ":" + f.kind, f.what + " after [" + prog_str(ops, where) + "] on grid " + std::to_string(grids[g].nx) + "x" + std::to_string(grids[g].ny) + "x" + std::to_string(grids[g].nz) + " pattern(case) " + case_str(g, mask, where), rp);
    }
}

// One program on one grid: the all-active run plus every mask of the tier.
static void run_program(int g, const std::vector<Op>& ops, const std::vector<int>& prog, const std::vector<Pat>& masks) {
    R->current(case_str(g, Pat{}, prog));
    LibRes full = run_lib(g, Pat{}, ops, prog);
    auto f = judge(g, Pat{}, ops, prog, full, nullptr, true);       // the all-active run itself against the reference
    if (!f.empty()) record(g, Pat{}, ops, prog, f);
    for (const Pat& m : masks) {
        R->current(case_str(g, m, prog));
        LibRes lib = run_lib(g, m, ops, prog);
        auto f1 = judge(g, m, ops, prog, lib, &full, true);
        if (!f1.empty()) record(g, m, ops, prog, f1);
    }
}

// enumerate all sequences of length 1..depth over `alpha` (indices into ops) in non-decreasing section order
template <class F> static void enumerate(const std::vector<Op>& ops, const std::vector<int>& alpha, int depth, std::vector<int>& prog, F&& f) {
    if (!prog.empty()) f(prog);
    if ((int)prog.size() >= depth) return;
    for (int o : alpha) {
        if (!prog.empty() && ops[o].sec < ops[prog.back()].sec) continue;
        prog.push_back(o); enumerate(ops, alpha, depth, prog, f); prog.pop_back();
    }
}

int main(int argc, char** argv) {
    vf::Run run("C12", argc, argv); R = &run;
    OpmLog::removeAllBackends();
    Parser parser; g_parser = &parser;
    std::vector<Op> ops[2] = {make_ops(0), make_ops(1)};

    if (!run.replay_path.empty()) {       // "<grid> <pattern> <op> <op> ..."   pattern = <actnum|-1>[/<zeroPORO>/<zeroNTG>/<zeroMULTPV>]
        std::istringstream ss(run.replay_path); int g; std::string pt; ss >> g >> pt; const Pat pat = pat_parse(pt); std::vector<int> prog; int x; while (ss >> x) prog.push_back(x);
        g_verbose = true;
        std::printf("%s\n", deck_text(g, pat, ops[g], prog).c_str());
        LibRes full = run_lib(g, Pat{}, ops[g], prog);
        LibRes lib = is_plain(pat) ? full : run_lib(g, pat, ops[g], prog);
        auto f = judge(g, pat, ops[g], prog, lib, is_plain(pat) ? nullptr : &full, true);
        g_verbose = false;
        if (!f.empty()) record(g, pat, ops[g], prog, f);
        return run.finish();
    }

    // ---- ACTNUM patterns (bit c = cell c active)
    auto pats = [](std::initializer_list<unsigned> l) { std::vector<Pat> v; for (unsigned m : l) { Pat p; p.act = m; v.push_back(p); } return v; };
    std::vector<Pat> qmask[2] = {pats({0xFE, 0x7F, 0xEF, 0xF7, 0xDB, 0xA5, 0x5A, 0x3C, 0xC3, 0x0F, 0xF0, 0x81}),
                                 pats({0x3E, 0x1F, 0x3D, 0x2F, 0x2D, 0x15, 0x2A, 0x0C, 0x33, 0x07, 0x38, 0x21})};
    std::vector<Pat> allmask[2];
    for (int g = 0; g < 2; ++g) for (unsigned m = 1; m < (1u << grids[g].n()); ++m) { Pat p; p.act = m; allmask[g].push_back(p); }
    std::vector<Pat> q4[2] = {pats({0xF7, 0xDB, 0xA5, 0x0F}), pats({0x3D, 0x2D, 0x15, 0x38})};

    // ---- late-deactivation patterns: a set S of removed cells x the mechanism that removes them.
    // S (bit c = cell c REMOVED): leading runs (1 cell, 2 cells, 3 cells, whole row / whole layer), interior, trailing, alternating, mixed positions.
    // mechanisms: P all by PORO=0, N all by NTG=0, M all by MULTPV=0; for |S|>=2 also AZ (lowest cell by ACTNUM, rest PORO=0),
    // ZA (lowest cell PORO=0, rest by ACTNUM), ROT (cells take PORO/NTG/MULTPV = 0 in turn).
    const std::vector<unsigned> removed[2] = {{0x01, 0x03, 0x07, 0x0F, 0x08, 0x24, 0x80, 0xC0, 0x55, 0xAA, 0x09, 0x81},
                                              {0x01, 0x03, 0x07, 0x02, 0x10, 0x12, 0x20, 0x30, 0x15, 0x2A, 0x11, 0x21}};
    std::vector<Pat> latemask[2], qlate[2];
    for (int g = 0; g < 2; ++g) {
        const unsigned allc = (1u << grids[g].n()) - 1;
        for (unsigned S : removed[g]) {
            const unsigned low = S & (~S + 1u);
            { Pat p; p.zp = S; latemask[g].push_back(p); } { Pat p; p.zn = S; latemask[g].push_back(p); } { Pat p; p.zm = S; latemask[g].push_back(p); }
            if (S != low) {
                { Pat p; p.act = allc & ~low; p.zp = S & ~low; latemask[g].push_back(p); }
                { Pat p; p.act = allc & ~(S & ~low); p.zp = low; latemask[g].push_back(p); }
                { Pat p; int k = 0; for (int c = 0; c < grids[g].n(); ++c) if ((S >> c) & 1) { (k % 3 == 0 ? p.zp : k % 3 == 1 ? p.zn : p.zm) |= 1u << c; ++k; } latemask[g].push_back(p); }
            }
        }
        // quick subset: lead-1 by PORO, lead-2 by NTG, leading row/layer by MULTPV, lead-2 mixed ACTNUM+PORO, lead+interior rotating, interior by PORO, trailing by NTG, alternating by PORO
        auto mk = [&](unsigned S, char mech) { Pat p; const unsigned low = S & (~S + 1u); if (mech == 'P') p.zp = S; else if (mech == 'N') p.zn = S; else if (mech == 'M') p.zm = S; else if (mech == 'A') { p.act = allc & ~low; p.zp = S & ~low; } else { int k = 0; for (int c = 0; c < grids[g].n(); ++c) if ((S >> c) & 1) { (k % 3 == 0 ? p.zp : k % 3 == 1 ? p.zn : p.zm) |= 1u << c; ++k; } } return p; };
        const auto& Sg = removed[g];
        qlate[g] = {mk(Sg[0], 'P'), mk(Sg[1], 'N'), mk(g == 0 ? Sg[3] : Sg[2], 'M'), mk(Sg[1], 'A'), mk(Sg[10], 'R'), mk(g == 0 ? Sg[4] : Sg[3], 'P'), mk(Sg[6], 'N'), mk(Sg[8], 'P')};
    }

    std::vector<Pat> qlate2[2] = {{qlate[0][3], qlate[0][4]}, {qlate[1][3], qlate[1][4]}};     // lead-2 (ACTNUM + PORO), lead + interior (PORO, NTG)

    std::vector<int> core4, core, all, late, everything;
    static const char* pre_names[] = {"PERMX_all", "EQUALS_PERMX", "MULTIPLY_PERMX_C", "MULTNUM_all", "EQUALS_MULTNUM_D", "FLUXNUM_all", "MULTX_grid_def", "EQUALS_2rec", "COPY_PORO_NTG_B", "ADD_PORO", "EQUALREG_PORO", "EQUALS_MULTX_edit_B"};
    for (int i = 0; i < (int)ops[0].size(); ++i) {
        const Op& o = ops[0][i];
        everything.push_back(i);
        if (!o.late_only) all.push_back(i);
        if (o.core) core.push_back(i); if (o.core4) core4.push_back(i);
        bool pre = false; for (const char* nm : pre_names) pre = pre || o.name == nm;
        if (pre || o.sec >= S_PROPS) late.push_back(i);       // arrays defined before the compaction + every operation after it
    }

    // regime: all programs of length min_len..depth over alpha (non-decreasing section order) x patterns (+ the all-active run)
    struct Regime { const char* name; const std::vector<int>* alpha; int depth; const std::vector<Pat>* masks; int min_len; bool need_extra; int only_grid; };
    std::vector<Regime> regimes;
    if (run.quick()) {
        regimes.push_back({"single", &all, 1, allmask, 1, false, -1});
        regimes.push_back({"deep", &core, 3, qmask, 1, false, -1});
        regimes.push_back({"broad", &all, 2, qmask, 2, true, -1});
        regimes.push_back({"late1", &everything, 1, latemask, 0, false, -1});
        regimes.push_back({"late2", &late, 2, qlate, 2, false, -1});
        regimes.push_back({"late3", &late, 3, qlate2, 3, false, -1});
        regimes.push_back({"latecore", &core, 2, qlate, 2, false, -1});
    } else {
        regimes.push_back({"allmasks", &all, 2, allmask, 1, false, -1});
        regimes.push_back({"deep", &core, 3, qmask, 3, false, -1});
        regimes.push_back({"allmasks3", &core, 3, allmask, 3, false, 1});
        regimes.push_back({"deep4", &core4, 4, qmask, 4, false, -1});
        regimes.push_back({"broad", &all, 3, q4, 3, true, -1});
        regimes.push_back({"late1", &everything, 1, latemask, 0, false, -1});
        regimes.push_back({"late", &late, 3, latemask, 2, false, -1});
        regimes.push_back({"latecore", &core, 3, qlate, 2, false, -1});
    }
    const char* only = std::getenv("C12_ONLY"); const bool dry = std::getenv("C12_DRY") != nullptr;
    uint64_t programs = 0;
    for (auto& rg : regimes) {
        if (only && std::string(only) != rg.name) continue;
        for (int g = 0; g < 2; ++g) {
            if (rg.only_grid >= 0 && g != rg.only_grid) continue;
            std::vector<int> prog;
            auto visit = [&](const std::vector<int>& p) {
                if ((int)p.size() < rg.min_len) return;
                if (rg.need_extra) { bool x = false; for (int o : p) x = x || !ops[g][o].core; if (!x) return; }
                if (!run.mine()) return;
                if (run.timed_out()) return;
                ++programs; run.count(std::string("programs_") + rg.name);
                if (dry) { run.evaluations += 1 + rg.masks[g].size(); return; }
                run_program(g, ops[g], p, rg.masks[g]);
                if (run.samples.size() < 6 && p.size() >= 2 && (programs % 97) == 1) run.sample_str(std::string(rg.name) + " grid " + std::to_string(g) + ": " + prog_str(ops[g], p) + (rg.masks[g][0].late() ? " x e.g. pattern " + pat_str(rg.masks[g][programs % rg.masks[g].size()]) : ""));
            };
            if (rg.min_len == 0) visit(prog);        // the base deck alone
            enumerate(ops[g], *rg.alpha, rg.depth, prog, visit);
        }
    }
    run.count("programs", programs);
    if (run.shard == 0) { run.count("alphabet_core4", core4.size()); run.count("alphabet_core", core.size()); run.count("alphabet_all", all.size()); }
    {
        std::string names[3];
        for (int i : all) names[ops[0][i].core4 ? 0 : ops[0][i].core ? 1 : 2] += ops[0][i].name + " ";
        run.notes["alphabet_core4"] = names[0]; run.notes["alphabet_core_adds"] = names[1]; run.notes["alphabet_broad_adds"] = names[2];
        std::string ln; for (int i : late) ln += ops[0][i].name + " "; run.notes["alphabet_late"] = ln;
        std::string lo; for (int i : everything) if (ops[0][i].late_only) lo += ops[0][i].name + " "; run.notes["alphabet_late_only_adds"] = lo;
        std::string ql; for (int g = 0; g < 2; ++g) { ql += g ? "; 3x2x1: " : "2x2x2: "; for (auto& p : qlate[g]) ql += pat_str(p) + " "; }
        run.notes["late_patterns"] = "pattern = actnum/zeroPORO/zeroNTG/zeroMULTPV (decimal bit sets, bit c = cell c; actnum -1 = no ACTNUM keyword). removed-cell sets S: 2x2x2 {0},{0,1},{0,1,2},{0..3},{3},{2,5},{7},{6,7},{0,2,4,6},{1,3,5,7},{0,3},{0,7}; 3x2x1 {0},{0,1},{0,1,2},{1},{4},{1,4},{5},{4,5},{0,2,4},{1,3,5},{0,4},{0,5}; each S by PORO=0, NTG=0, MULTPV=0 and (|S|>=2) lowest cell by ACTNUM + rest PORO=0, lowest cell PORO=0 + rest ACTNUM, PORO/NTG/MULTPV in turn: " + std::to_string(latemask[0].size()) + " + " + std::to_string(latemask[1].size()) + " patterns. quick subset (8 per grid): " + ql;
        run.notes["quick_masks"] = "2x2x2: FE 7F EF F7 DB A5 5A 3C C3 0F F0 81; 3x2x1: 3E 1F 3D 2F 2D 15 2A 0C 33 07 38 21 (hex, bit c = cell c active, cell index i fastest)";
    }
    run.rule = std::string("programs = ALL sequences (deck order: GRID<=EDIT<=PROPS<=REGIONS<=SOLUTION) of field-property operations over the listed alphabets on grids 2x2x2 and 3x2x1; each program is built with the real Parser+EclipseState once without ACTNUM and once per inactive-cell pattern. A pattern is a set of removed cells together with the MECHANISM that removes them: ACTNUM (inactive from the start) or zero pore volume through PORO=0, NTG=0 or MULTPV=0 in the base deck (LATE deactivation: the cells are active while GRID and EDIT are processed and are removed, with every existing array re-compacted by reset_actnum, before PROPS/REGIONS/SOLUTION), or a mix; positions include every leading run (1, 2, 3 cells, whole row/layer before the first survivor), interior, trailing and alternating cells. ")
        + (run.quick() ? "quick: [single] every one of the " + std::to_string(all.size()) + " operations alone x ALL ACTNUM patterns (255 + 63); [deep] all programs of length 1..3 over the " + std::to_string(core.size()) + "-operation core alphabet x 12 ACTNUM patterns per grid (single interior/corner inactive cells, pairs, checkerboards, whole layers/rows, two isolated active cells); [broad] all programs of length 2 over the full " + std::to_string(all.size()) + "-operation alphabet containing at least one non-core operation (every OPERATE function, OPERATER, region variants over MULTNUM/FLUXNUM/FIPNUM, EDIT multipliers, PROPS/REGIONS/SOLUTION arrays, defaulted n* entries) x the same 12 patterns; [late1] the base deck alone and each of the " + std::to_string(everything.size()) + " operations alone x ALL " + std::to_string(latemask[0].size()) + "+" + std::to_string(latemask[1].size()) + " late-deactivation patterns; [late2] all programs of length 2 over the " + std::to_string(late.size()) + "-operation late alphabet (arrays incl. MULTNUM/FLUXNUM region sets defined in GRID/EDIT before the compaction, PORO/NTG revivals, and every PROPS/REGIONS/SOLUTION operation after it: EQUALREG/ADDREG/MULTIREG/OPERATER/COPYREG driven by those region sets, EQUALS/ADD/MULTIPLY/COPY in boxes, direct arrays) x 8 late patterns per grid; [late3] all programs of length 3 over the late alphabet x 2 late patterns per grid (leading pair by ACTNUM+PORO, leading+interior by PORO+NTG); [latecore] all core programs of length 2 x the 8 late patterns. "
                       : "thorough: [allmasks] all programs of length 1..2 over the full " + std::to_string(all.size()) + "-operation alphabet x ALL ACTNUM patterns (255 for 2x2x2, 63 for 3x2x1); [deep] all programs of length 3 over the " + std::to_string(core.size()) + "-operation core alphabet x 12 patterns per grid; [allmasks3] the same length-3 core programs on 3x2x1 x ALL 63 patterns; [deep4] all programs of length 4 over the pruned " + std::to_string(core4.size()) + "-operation alphabet (PERMX-centred) x 12 patterns per grid; [broad] all programs of length 3 over the full alphabet containing at least one non-core operation x 4 patterns per grid; [late1] the base deck alone and each of the " + std::to_string(everything.size()) + " operations alone x ALL " + std::to_string(latemask[0].size()) + "+" + std::to_string(latemask[1].size()) + " late-deactivation patterns; [late] all programs of length 2..3 over the " + std::to_string(late.size()) + "-operation late alphabet (definitions before the compaction, operations after it) x ALL late patterns; [latecore] all core programs of length 2..3 x 8 late patterns per grid. ")
        + "Oracles: (1) reference interpreter over global cells with per-cell UNDEF/DEFAULT/VALUE status and deck-unit semantics: get_double/get_int, get_global_* and (double arrays, also partially defined ones) per-cell value + has-value status equal the reference on every active cell (ints exact, doubles 1e-12 relative incl. mD->m2 and bar->Pa), programs legal for the reference must not be rejected, and the library's final active set equals ACTNUM minus the cells whose PORO*NTG*MULTPV is zero after EDIT in the reference; (2) all-active differential: bitwise equal values on the cells active in the masked run (cells zeroed in the base deck but given pore volume again by the program are excluded from this differential only). Illegal programs (reference reads an undefined active cell, array length != input box, documented preconditions) are only counted. distinct = distinct vectors of library values on the active cells.";
    run.assumptions = {
        "reference semantics written from the keyword documentation: direct assignment fills the current input box in i-fastest order, n* entries leave the cell unchanged unless the keyword item has a default and the cell is unset; BOX persists until ENDBOX or the end of the section; a defaulted box in EQUALS/ADD/MULTIPLY/MINVALUE/MAXVALUE/COPY/OPERATE records means the input box or the box of the previous record; MINVALUE raises to a floor, MAXVALUE caps; scalars of ADD/EQUALS/MINVALUE/MAXVALUE and OPERATE parameters carry the target's unit, MULTIPLY factors do not; OPERATE functions act on deck-unit values; region keywords select cells whose region value equals the id, default region set = MULTNUM because GRIDOPTS NRMULT>0; MULTX given in EDIT multiplies the GRID value at the end of EDIT; PERMX/PERMY/PORO cells left unset by an assignment in GRID take the value given for the top-layer cell of their column in that keyword",
        "preconditions taken over from the library's explicit error messages (programs violating them are counted as illegal, not compared): ADD/MULTIPLY/MINVALUE/MAXVALUE need a target that was mentioned before (except multipliers); COPY/COPYREG need a source that is fully defined on the active cells and copy explicitly assigned values only; OPERATE/COPY between an all-cells-storage array (PERMX/PERMY) and an active-cell-storage array is unsupported; region sets must be fully defined",
        "all-cells storage rule: for PERMX/PERMY (stored for inactive cells too, FieldProps.hpp 'Regarding global keywords') box operations that read an INACTIVE cell without value are rejected by the library; such rejections are counted (rejected_by_global_storage_rule), not reported",
        "activity coupling: EclipseState deactivates cells with zero pore volume after GRID/EDIT. In ACTNUM-only patterns the base deck has PORO>0, NTG>0 everywhere and the alphabet keeps them positive; in late-deactivation patterns the reference treats zero-pore-volume cells as active during GRID/EDIT (legality, top-layer fill, region operations) and as inactive afterwards, computing the removed set from its own PORO, NTG, MULTPV values at the end of EDIT (programs may revive cells, e.g. ADD PORO); the library's final ACTNUM must equal that set (key C12:DEACT:activity)",
        "a region record on an INTEGER array whose region holds no active cell is taken to define nothing (the array does not start to exist), matching the library, which skips such records altogether (known finding C12:EQUALREG-int)",
        "findings on the base deck alone (no program operation needed, e.g. PORO itself wrong after the compaction) get the key class BASE",
        "violation keys name the operation class of the SHORTEST prefix of the program that already misbehaves on the same grid and ACTNUM pattern",
        "per-cell status of partially defined double arrays and the all-cells storage are read through FieldPropsManager::get_double_field_data(kw, true) (public, auxiliary observation)",
        "values, boxes, region ids and ACTNUM patterns outside the stated alphabets are not covered; partial box defaults (e.g. 2* 2* 2 2), TRAN*/PORV, MULTPV other than as a 0/non-0 base array, MINPV/PINCH deactivation, numerical-aquifer cells, satfunc end-point arrays, region operations on EDIT multipliers, PROPS operations reading REGIONS arrays and SCHEDULE-section multipliers are left out"};
    return run.finish();
}
