// C16_impl.hpp — evaluation of a c16::Tree with a REAL Opm::DenseAd::Evaluation
// type.  Included by one tiny TU per variant (C16_sNN.cpp, C16_gNN.cpp,
// C16_dyn.cpp); each TU exports one registration function.
#pragma once
#include "C16_ad.hpp"
#include <type_traits>
#include <utility>
#include <opm/material/densead/Evaluation.hpp>
#include <opm/material/densead/Math.hpp>

namespace c16 {

template <class E> struct Impl {
    static constexpr bool dyn = (E::numVars < 0);

    static E constant(int n, double c) {
        if constexpr (dyn) return E::createConstant(n, c);
        else { (void)n; return E::createConstant(c); }
    }
    static E leaf(int n, int k) {
        E e = constant(n, leaf_value(k));
        for (int i = 0; i < n; ++i) e.setDerivative(i, leaf_deriv(k, i));
        return e;
    }
    // operators with two Evaluation operands
    static E apply_ee(int kind, const E& a, const E& b) {
        namespace ad = Opm::DenseAd;
        switch (kind) {
        case ADD_EE: return a + b;
        case SUB_EE: return a - b;
        case MUL_EE: return a * b;
        case DIV_EE: return a / b;
        case ADDEQ_E: { E r(a); r += b; return r; }
        case SUBEQ_E: { E r(a); r -= b; return r; }
        case MULEQ_E: { E r(a); r *= b; return r; }
        case DIVEQ_E: { E r(a); r /= b; return r; }
        case POW_EE: return ad::pow(a, b);
        case ATAN2_EE: return ad::atan2(a, b);
        case MIN_EE: return ad::min(a, b);
        case MAX_EE: return ad::max(a, b);
        }
        throw std::logic_error("apply_ee: bad kind");
    }
    // one Evaluation operand (+ scalar for the mixed forms)
    static E apply_1(int kind, const E& a, double s) {
        namespace ad = Opm::DenseAd;
        switch (kind) {
        case ADD_ES: return a + s;
        case SUB_ES: return a - s;
        case MUL_ES: return a * s;
        case DIV_ES: return a / s;
        case ADD_SE: return s + a;
        case SUB_SE: return s - a;
        case MUL_SE: return s * a;
        case DIV_SE: return s / a;
        case ADDEQ_S: { E r(a); r += s; return r; }
        case SUBEQ_S: { E r(a); r -= s; return r; }
        case MULEQ_S: { E r(a); r *= s; return r; }
        case DIVEQ_S: { E r(a); r /= s; return r; }
        case NEG: return -a;
        case POW_ES: return ad::pow(a, s);
        case POW_SE: return ad::pow(s, a);
        case SQRT: return ad::sqrt(a);
        case EXP: return ad::exp(a);
        case LOG: return ad::log(a);
        case LOG10: return ad::log10(a);
        case SIN: return ad::sin(a);
        case COS: return ad::cos(a);
        case TAN: return ad::tan(a);
        case ASIN: return ad::asin(a);
        case ACOS: return ad::acos(a);
        case ATAN: return ad::atan(a);
        case SINH: return ad::sinh(a);
        case COSH: return ad::cosh(a);
        case ASINH: return ad::asinh(a);
        case ACOSH: return ad::acosh(a);
        case ABS: return ad::abs(a);
        case ATAN2_ES: return ad::atan2(a, s);
        case ATAN2_SE: return ad::atan2(s, a);
        case MIN_ES: return ad::min(a, s);
        case MIN_SE: return ad::min(s, a);
        case MAX_ES: return ad::max(a, s);
        case MAX_SE: return ad::max(s, a);
        // aliasing forms: `a` is the sub-tree result held in a variable; both operands are that one object
        case ADDEQ_SELF: { E r(a); r += r; return r; }
        case SUBEQ_SELF: { E r(a); r -= r; return r; }
        case MULEQ_SELF: { E r(a); r *= r; return r; }
        case DIVEQ_SELF: { E r(a); r /= r; return r; }
        case ADD_SELF: return a + a;
        case SUB_SELF: return a - a;
        case MUL_SELF: return a * a;
        case DIV_SELF: return a / a;
        case POW_SELF: return ad::pow(a, a);
        case ATAN2_SELF: return ad::atan2(a, a);
        // value() returns a const reference: the scalar rhs lives in r's own value slot
        case ADDEQ_OWNV: { E r(a); r += r.value(); return r; }
        case SUBEQ_OWNV: { E r(a); r -= r.value(); return r; }
        case MULEQ_OWNV: { E r(a); r *= r.value(); return r; }
        case DIVEQ_OWNV: { E r(a); r /= r.value(); return r; }
        }
        throw std::logic_error("apply_1: bad kind");
    }
    static E eval_node(const Tree& t, int idx, int n) {
        const Node& x = t.n[idx];
        switch (info(x.kind).ar) {
        case A_LEAF: return leaf(n, x.par);
        case A_EE: { E a = eval_node(t, x.a, n); E b = eval_node(t, x.b, n); return apply_ee(x.kind, a, b); }
        default: { E a = eval_node(t, x.a, n); return apply_1(x.kind, a, scalar_value(x.par)); }
        }
    }
    static void store(const E& r, int n, double* out) {
        if (r.size() != n) throw std::runtime_error("result has " + std::to_string(r.size()) + " derivatives, expected " + std::to_string(n));
        out[0] = r.value();
        for (int i = 0; i < n; ++i) out[1 + i] = r.derivative(i);
    }
    static void eval(const Tree& t, int idx, int n, double* out) { store(eval_node(t, idx, n), n, out); }
    static void eval_lifted(const Tree& t, int n, double* out) {
        const Node& x = t.n[t.root()];
        const KindInfo& ki = info(x.kind);
        E a = eval_node(t, x.a, n);
        E c = constant(n, scalar_value(x.par));
        store(ki.ar == A_SE ? apply_ee(ki.lifted, c, a) : apply_ee(ki.lifted, a, c), n, out);
    }
    // ---- scalar-type regime -------------------------------------------------
    template <class S, class = void> struct has_atan2_es : std::false_type {};
    template <class S> struct has_atan2_es<S, std::void_t<decltype(Opm::DenseAd::atan2(std::declval<const E&>(), std::declval<const S&>()))>> : std::true_type {};
    template <class S, class = void> struct has_atan2_se : std::false_type {};
    template <class S> struct has_atan2_se<S, std::void_t<decltype(Opm::DenseAd::atan2(std::declval<const S&>(), std::declval<const E&>()))>> : std::true_type {};
    template <class S> static bool apply_typed(int kind, const E& a, const S s, E& r) {
        namespace ad = Opm::DenseAd;
        switch (kind) {
        case ADD_ES: r = a + s; return true;
        case SUB_ES: r = a - s; return true;
        case MUL_ES: r = a * s; return true;
        case DIV_ES: r = a / s; return true;
        case ADD_SE: r = s + a; return true;
        case SUB_SE: r = s - a; return true;
        case MUL_SE: r = s * a; return true;
        case DIV_SE: r = s / a; return true;
        case ADDEQ_S: r = a; r += s; return true;
        case SUBEQ_S: r = a; r -= s; return true;
        case MULEQ_S: r = a; r *= s; return true;
        case DIVEQ_S: r = a; r /= s; return true;
        case POW_ES: r = ad::pow(a, s); return true;
        case POW_SE: r = ad::pow(s, a); return true;
        case MIN_ES: r = ad::min(a, s); return true;
        case MIN_SE: r = ad::min(s, a); return true;
        case MAX_ES: r = ad::max(a, s); return true;
        case MAX_SE: r = ad::max(s, a); return true;
        case ATAN2_ES: if constexpr (has_atan2_es<S>::value) { r = ad::atan2(a, s); return true; } else return false;
        case ATAN2_SE: if constexpr (has_atan2_se<S>::value) { r = ad::atan2(s, a); return true; } else return false;
        }
        throw std::logic_error("apply_typed: not a mixed form");
    }
    static bool eval_typed(const Tree& t, int n, int stype, double* out) {
        const Node& x = t.n[t.root()];
        const E a = eval_node(t, x.a, n);
        const double sv = scalar_value(x.par);
        E r = a; bool ok = false;
        switch (stype) {
        case ST_DOUBLE: ok = apply_typed<double>(x.kind, a, sv, r); break;
        case ST_FLOAT: ok = apply_typed<float>(x.kind, a, (float)sv, r); break;
        case ST_INT: ok = apply_typed<int>(x.kind, a, (int)sv, r); break;
        case ST_UNSIGNED: ok = apply_typed<unsigned>(x.kind, a, (unsigned)sv, r); break;
        case ST_LONG: ok = apply_typed<long>(x.kind, a, (long)sv, r); break;
        case ST_SHORT: ok = apply_typed<short>(x.kind, a, (short)sv, r); break;
        }
        if (ok) store(r, n, out);
        return ok;
    }
    template <class S> static unsigned cmp_mask(const E& x, const S s) {
        const bool r[NCMP] = {x == s, x != s, x < s, x > s, x <= s, x >= s, s < x, s > x, s <= x, s >= x, s != x};
        unsigned m = 0; for (int i = 0; i < NCMP; ++i) if (r[i]) m |= 1u << i; return m;
    }
    static unsigned cmp_typed(const Tree& t, int n, int stype, double sv) {
        const E x = eval_node(t, t.root(), n);
        switch (stype) {
        case ST_DOUBLE: return cmp_mask<double>(x, sv);
        case ST_FLOAT: return cmp_mask<float>(x, (float)sv);
        case ST_INT: return cmp_mask<int>(x, (int)sv);
        case ST_UNSIGNED: return cmp_mask<unsigned>(x, (unsigned)sv);
        case ST_LONG: return cmp_mask<long>(x, (long)sv);
        default: return cmp_mask<short>(x, (short)sv);
        }
    }
    static Variant make(const std::string& name, const std::string& cls, int n) {
        Variant v; v.name = name; v.cls = cls; v.n = n; v.dynamic = dyn; v.eval = &eval; v.eval_lifted = &eval_lifted; v.eval_typed = &eval_typed; v.cmp_typed = &cmp_typed; return v;
    }
};

} // namespace c16

#define C16_STATIC_TU(N, PREFIX) \
    namespace c16 { void reg_##N(std::vector<Variant>& v) { v.push_back(Impl<Opm::DenseAd::Evaluation<double, N>>::make(PREFIX #N, PREFIX #N, N)); } }
