// C18 — ACTIONX: (a) condition evaluation = truth value + matching-well set of
// every small Boolean tree (E1, reference evaluator), (b) triggering limits
// max_run / min_wait / start time over every evaluation history (E2, reference
// predicate + invariants on the recorded run list), and with --edges the replay
// of every edge of the TLC state graph of models/C18_trigger.tla (model tier M).
#include "vf.hpp"
#include <opm/input/eclipse/Schedule/Action/ASTNode.hpp>
#include <opm/input/eclipse/Schedule/Action/ActionAST.hpp>
#include <opm/input/eclipse/Schedule/Action/PyAction.hpp>
#include <opm/input/eclipse/Schedule/Action/ActionContext.hpp>
#include <opm/input/eclipse/Schedule/Action/ActionResult.hpp>
#include <opm/input/eclipse/Schedule/Action/ActionX.hpp>
#include <opm/input/eclipse/Schedule/Action/Actions.hpp>
#include <opm/input/eclipse/Schedule/Action/Condition.hpp>
#include <opm/input/eclipse/Schedule/Action/State.hpp>
#include <opm/input/eclipse/Schedule/SummaryState.hpp>
#include <opm/input/eclipse/Schedule/Well/WList.hpp>
#include <opm/input/eclipse/Schedule/Well/WListManager.hpp>
#include <opm/common/utility/MemPacker.hpp>
#include <opm/common/utility/Serializer.hpp>
#include <ctime>
#include <memory>

using namespace Opm;
static vf::Run* R;

// =========================================================== part (a) ======
// ---- fixed summary state (the harness' own table; the reference reads only this)
static const std::time_t T0 = 1577836800;            // 2020-01-01 00:00:00 UTC
enum { bP1 = 1, bP2 = 2, bI1 = 4, bOTHER = 8 };
static const struct { const char* name; unsigned bit; double wopr; } WELLS[] = {{"I1", bI1, 0.0}, {"P1", bP1, 10.0}, {"P2", bP2, 50.0}};
static const double FOPR = 100.0, GOPR_G1 = 60.0;
static const double DATE_DAY = 15, DATE_MNTH = 7, DATE_YEAR = 2020;      // 15 JUL 2020

static bool cmp(double l, const std::string& op, double r) {
    if (op == ">") return l > r; if (op == "<") return l < r; if (op == ">=") return l >= r;
    if (op == "<=") return l <= r; if (op == "=") return l == r; if (op == "!=") return l != r;
    throw std::logic_error("harness: bad op " + op);
}

struct Leaf {
    const char* name; std::vector<std::string> tok;
    bool well;                 // well-level comparison (contributes a set when true)
    double lhs;                // scalar leaves: left value
    unsigned cand;             // well leaves: wells the left side ranges over (bit mask)
    std::string op; double rhs;
    // reference value (computed in init_leaves from the table above)
    bool truth = false; unsigned set = 0;
};
static std::vector<Leaf> LEAVES = {
    {"sT",   {"FOPR", ">", "0"},            false, FOPR, 0, ">", 0},
    {"sF",   {"FOPR", "<", "0"},            false, FOPR, 0, "<", 0},
    {"wP12", {"WOPR", "P*", ">", "5"},      true, 0, bP1 | bP2, ">", 5},
    {"wP2",  {"WOPR", "P*", ">", "20"},     true, 0, bP1 | bP2, ">", 20},
    {"wP0",  {"WOPR", "P*", ">", "1000"},   true, 0, bP1 | bP2, ">", 1000},
    {"wAll", {"WOPR", "*", "<", "20"},      true, 0, bP1 | bP2 | bI1, "<", 20},
    // ---- the six above are the "core" alphabet; the rest widen the leaf kinds
    {"w1",   {"WOPR", "P1", ">", "5"},      true, 0, bP1, ">", 5},
    {"wL1",  {"WOPR", "*L1", ">=", "0"},    true, 0, bP2 | bI1, ">=", 0},          // WLIST *L1 = {P2, I1}
    {"gT",   {"GOPR", "G1", ">", "50"},     false, GOPR_G1, 0, ">", 50},
    {"mSym", {"MNTH", "=", "JUL"},          false, DATE_MNTH, 0, "=", 7},
    {"mNum", {"MNTH", "!=", "7"},           false, DATE_MNTH, 0, "!=", 7},
    {"dF",   {"DAY", ">", "15"},            false, DATE_DAY, 0, ">", 15},
    {"yT",   {"YEAR", "=", "2020"},         false, DATE_YEAR, 0, "=", 2020},
};
static const int NCORE = 6;
static void init_leaves() {
    for (auto& l : LEAVES) {
        if (!l.well) { l.truth = cmp(l.lhs, l.op, l.rhs); l.set = 0; continue; }
        l.set = 0;
        for (auto& w : WELLS) if ((l.cand & w.bit) && cmp(w.wopr, l.op, l.rhs)) l.set |= w.bit;
        l.truth = l.set != 0;        // assumption A1: a well-level comparison holds iff it holds for at least one well
    }
}
static std::string setstr(unsigned m) { std::string s = "{"; for (auto& w : WELLS) if (m & w.bit) { if (s.size() > 1) s += ","; s += w.name; } if (m & bOTHER) s += ",?"; return s + "}"; }

// ---- trees
struct Node { int leaf = -1; bool is_and = false; std::vector<Node> ch; };     // leaf >= 0: slot index (shape) / leaf id (instance)
static int nleaves(const Node& n) { if (n.leaf >= 0) return 1; int s = 0; for (auto& c : n.ch) s += nleaves(c); return s; }

// all shapes with n leaves: internal nodes labelled AND/OR freely, >= 2 children, leaf slots numbered left to right
static std::map<int, std::vector<Node>> g_shapes;
static void compositions(int n, int minparts, std::vector<int>& cur, std::vector<std::vector<int>>& out) {
    if (n == 0) { if ((int)cur.size() >= minparts) out.push_back(cur); return; }
    for (int k = 1; k <= n; ++k) { cur.push_back(k); compositions(n - k, minparts, cur, out); cur.pop_back(); }
}
static const std::vector<Node>& shapes(int n) {
    auto it = g_shapes.find(n); if (it != g_shapes.end()) return it->second;
    std::vector<Node> out;
    if (n == 1) { Node l; l.leaf = 0; out.push_back(l); }
    else {
        std::vector<std::vector<int>> comps; std::vector<int> cur; compositions(n, 2, cur, comps);
        for (int op = 0; op < 2; ++op)
            for (auto& comp : comps) {
                // cartesian product of child shapes
                std::vector<size_t> idx(comp.size(), 0);
                while (true) {
                    Node nd; nd.is_and = op == 0;
                    for (size_t k = 0; k < comp.size(); ++k) nd.ch.push_back(shapes(comp[k])[idx[k]]);
                    out.push_back(nd);
                    size_t k = 0;
                    for (; k < comp.size(); ++k) { if (++idx[k] < shapes(comp[k]).size()) break; idx[k] = 0; }
                    if (k == comp.size()) break;
                }
            }
    }
    return g_shapes[n] = out;
}
static void number_slots(Node& n, int& next) { if (n.leaf >= 0) { n.leaf = next++; return; } for (auto& c : n.ch) number_slots(c, next); }

// rendering.  minimal: a child is parenthesised iff it is internal and (OR under AND [needed] or same operator
// as its parent [keeps the nested tree]).  full: every internal child is parenthesised (adds the redundant
// parentheses around AND under OR).  Returns the maximal parenthesis nesting.
static int render(const Node& n, bool full, const std::vector<int>& leaf_of_slot, std::vector<std::string>& out, int depth = 0) {
    if (n.leaf >= 0) { for (auto& t : LEAVES[leaf_of_slot[n.leaf]].tok) out.push_back(t); return depth; }
    int mx = depth;
    for (size_t k = 0; k < n.ch.size(); ++k) {
        if (k) out.push_back(n.is_and ? "AND" : "OR");
        const Node& c = n.ch[k];
        bool par = c.leaf < 0 && (full || (n.is_and && !c.is_and) || (n.is_and == c.is_and));
        if (par) out.push_back("(");
        mx = std::max(mx, render(c, full, leaf_of_slot, out, depth + (par ? 1 : 0)));
        if (par) out.push_back(")");
    }
    return mx;
}
static bool has_and_under_or(const Node& n) { if (n.leaf >= 0) return false; for (auto& c : n.ch) { if (c.leaf < 0 && !n.is_and && c.is_and) return true; if (has_and_under_or(c)) return true; } return false; }
static std::string sexpr(const Node& n, const std::vector<int>& leaf_of_slot) {
    if (n.leaf >= 0) return LEAVES[leaf_of_slot[n.leaf]].name;
    std::string s = n.is_and ? "A(" : "O(";
    for (size_t k = 0; k < n.ch.size(); ++k) { if (k) s += ","; s += sexpr(n.ch[k], leaf_of_slot); }
    return s + ")";
}
static std::string opclass(const Node& n) {
    // coarse class of the expression, used only to key unexplained mismatches
    if (n.leaf >= 0) return std::string("leaf:") + "";
    bool a = false, o = false, nested = false;
    std::function<void(const Node&, int)> w = [&](const Node& x, int d) { if (x.leaf >= 0) return; (x.is_and ? a : o) = true; if (d > 0) nested = true; for (auto& c : x.ch) w(c, d + 1); };
    w(n, 0);
    if (a && o) return nested ? "mixed-and-or" : "mixed";
    return std::string(a ? "and-only" : "or-only") + (nested ? "-nested" : "-flat");
}

// ---- reference evaluator (the statement): AND binds tighter than OR (already in the tree), truth value of the
// Boolean expression; matching set = intersection under AND / union under OR over the sub-conditions that
// contribute a set; a scalar or a false sub-condition contributes no set.
struct Val { bool b; bool has; unsigned set; };
static Val ref_eval(const Node& n, const std::vector<int>& los) {
    if (n.leaf >= 0) { const Leaf& l = LEAVES[los[n.leaf]]; return {l.truth, l.truth && l.well, l.truth && l.well ? l.set : 0u}; }
    std::vector<Val> v; for (auto& c : n.ch) v.push_back(ref_eval(c, los));
    bool b = n.is_and; for (auto& x : v) b = n.is_and ? (b && x.b) : (b || x.b);
    if (!b) return {false, false, 0};
    Val r{true, false, 0};
    for (auto& x : v) {
        if (!x.b || !x.has) continue;                       // false or scalar: no set
        if (!r.has) { r.has = true; r.set = x.set; }
        else r.set = n.is_and ? (r.set & x.set) : (r.set | x.set);
    }
    return r;
}

// ---- triage model of the sighted mechanism (NOT an oracle; only chooses the key of a mismatch):
// the implementation keeps an "empty but present" set (i) for a false well comparison [leafFlag] and (ii) after
// clearing the set of a compound that turned false [clearFlag]; a present set takes part in the next AND / OR.
// It works on the tree as the parser builds it (A OR B OR C is OR(A, OR(B, C)); AND chains are flat).
static Val mimic(const Node& n, const std::vector<int>& los, bool leafFlag, bool clearFlag, size_t from = 0) {
    if (n.leaf >= 0) { const Leaf& l = LEAVES[los[n.leaf]]; if (!l.well) return {l.truth, false, 0}; return l.truth ? Val{true, true, l.set} : Val{false, leafFlag, 0}; }
    Val acc{n.is_and, false, 0};
    auto clear = [&]() { if (acc.has) { acc.set = 0; if (!clearFlag) acc.has = false; } };
    auto fold = [&](const Val& r) {
        acc.b = n.is_and ? (acc.b && r.b) : (acc.b || r.b);
        if (!acc.b) { clear(); return; }
        if (!r.has) return;
        if (n.is_and) { if (!acc.has) { acc.has = true; acc.set = r.set; } else acc.set &= r.set; }
        else { acc.has = true; acc.set |= r.set; }
    };
    if (n.is_and) { for (auto& c : n.ch) fold(mimic(c, los, leafFlag, clearFlag)); return acc; }
    // OR: parse_or is right recursive: OR(c[from], OR(c[from+1], ...))
    fold(mimic(n.ch[from], los, leafFlag, clearFlag));
    if (from + 2 == n.ch.size()) fold(mimic(n.ch[from + 1], los, leafFlag, clearFlag));
    else fold(mimic(n, los, leafFlag, clearFlag, from + 1));
    return acc;
}

struct CondEnv {
    SummaryState st{T0};
    WListManager wlm;
    std::unique_ptr<Action::Context> ctx;
    CondEnv() {
        st.update("FOPR", FOPR);
        for (auto& w : WELLS) st.update_well_var(w.name, "WOPR", w.wopr);
        st.update_group_var("G1", "GOPR", GOPR_G1);
        st.update("DAY", DATE_DAY); st.update("MNTH", DATE_MNTH); st.update("YEAR", DATE_YEAR);
        wlm.newList("*L1", {"P2", "I1"});
        ctx = std::make_unique<Action::Context>(st, wlm);
    }
};
static CondEnv* CE;

static std::string join(const std::vector<std::string>& v) { std::string s; for (auto& t : v) { if (!s.empty()) s += ' '; s += t; } return s; }

// executes one condition case on the real code and judges it
static bool known_key(const std::string& key) { for (auto& v : R->violations) if (v.key == key) { R->counters["violations_total"]++; return true; } return false; }
static void run_cond(const Node& shape, bool full, const std::vector<int>& los, bool count_it, uint64_t shape_h = 0) {
    std::vector<std::string> tok; tok.reserve(40);
    render(shape, full, los, tok);
    auto casestr = [&]() { return "cond " + sexpr(shape, los) + (full ? " full" : " min") + " :: " + join(tok); };
    auto rp = [&]() { return "{\"case\": " + vf::jstr(casestr()) + "}"; };
    if (count_it) R->evaluations++;
    bool got_b = false; unsigned got_set = 0;
    try {
        Action::AST ast(tok);
        try {
            Action::Result r = ast.eval(*CE->ctx);
            got_b = r.conditionSatisfied();
            std::string prev;
            bool first = true;
            for (const auto& w : r.matches().wells()) {
                unsigned bit = bOTHER; for (auto& x : WELLS) if (w == x.name) bit = x.bit;
                if ((got_set & bit) && bit != bOTHER) R->violation("C18:wells:duplicate-well", "well " + w + " listed twice in the matching set of [" + join(tok) + "]", rp());
                if (!first && !(prev < w)) R->count("wells_not_sorted");
                got_set |= bit; prev = w; first = false;
            }
        } catch (const std::exception& e) { R->violation("C18:cond:exception:eval", std::string("evaluating [") + join(tok) + "] threw: " + e.what(), rp()); return; }
    } catch (const std::exception& e) { R->violation("C18:cond:exception:parse", std::string("Action::AST([") + join(tok) + "]) threw: " + e.what(), rp()); return; }

    const Val ref = ref_eval(shape, los);
    const unsigned ref_set = ref.has ? ref.set : 0u;
    if (count_it) R->observe(shape_h * 1099511628211ull + (got_b ? 16u : 0u) + got_set);
    if (got_b != ref.b) {
        std::string key = shape.leaf >= 0 ? std::string("C18:truth:leaf:") + LEAVES[los[0]].name : "C18:truth:tree:" + opclass(shape);
        if (!known_key(key)) R->violation(key, "[" + join(tok) + "] evaluates to " + (got_b ? "true" : "false") + ", the Boolean expression is " + (ref.b ? "true" : "false") + "  (tree " + sexpr(shape, los) + ")", rp());
        return;
    }
    if (!got_b) { if (got_set) R->count("false_condition_with_nonempty_set"); return; }   // set compared only for a satisfied condition (see rule)
    if (got_set != ref_set) {
        std::string key;
        if (shape.leaf >= 0) key = std::string("C18:wells:leaf:") + LEAVES[los[0]].name;
        else {
            Val m10 = mimic(shape, los, true, false), m11 = mimic(shape, los, true, true);
            unsigned s10 = m10.has ? m10.set : 0u, s11 = m11.has ? m11.set : 0u;
            if (s10 == got_set) key = "C18:wells:or-false-wellcmp-then-and";             // false well comparison leaves an empty-but-present set
            else if (s11 == got_set) key = "C18:wells:or-false-compound-then-and";       // cleared set of a false compound stays present
            else key = "C18:wells:tree:" + opclass(shape);
        }
        if (!known_key(key)) R->violation(key, "[" + join(tok) + "] is true with matching wells " + setstr(got_set) + "; the statement (intersection under AND, union under OR, scalar/false sub-conditions contribute no set) gives " + setstr(ref_set) + "  (tree " + sexpr(shape, los) + ")", rp());
    }
    // harness self-check: the triage model with both flags off must be the reference
    Val m00 = mimic(shape, los, false, false);
    if (m00.b != ref.b || (m00.b && (m00.has ? m00.set : 0u) != ref_set)) R->violation("C18:harness:selfcheck", "triage model with flags off differs from the reference on " + sexpr(shape, los), rp());
}

static bool paren_depth_ok(const Node& shape, bool full, int n) {
    std::vector<int> los(n, 0); std::vector<std::string> t; return render(shape, full, los, t) <= 3;
}

// enumerate all leaf assignments of `shape`; minimal rendering over alphabet [0, nalpha_min), fully parenthesised
// rendering over [0, nalpha_full) (0: skipped); block = (shape, variant, first leaf)
static void enum_shape(const Node& shape, int n, int nalpha_min, int nalpha_full, bool sharded, bool count_it) {
    for (int full = 0; full < 2; ++full) {
        const int nalpha = full ? nalpha_full : nalpha_min;
        if (nalpha == 0) continue;
        if (full && !has_and_under_or(shape)) continue;          // identical token list
        if (!paren_depth_ok(shape, full, n)) { if (count_it && R->shard == 0) R->count("shape_renderings_skipped_nesting_gt_3"); continue; }
        if (count_it && R->shard == 0) R->count(full ? "shape_renderings_full_parens" : "shape_renderings_minimal");
        const uint64_t shape_h = vf::fnv(sexpr(shape, std::vector<int>(n, 0)) + (full ? "f" : "m"));
        for (int l0 = 0; l0 < nalpha; ++l0) {
            if (sharded && !R->mine()) continue;
            if (R->timed_out()) return;
            std::vector<int> los(n, 0); los[0] = l0;
            R->current("cond " + sexpr(shape, los) + (full ? " full" : " min") + " (block: first leaf fixed, others enumerated)");
            while (true) {
                run_cond(shape, full, los, count_it, shape_h);
                int k = n - 1;
                for (; k >= 1; --k) { if (++los[k] < nalpha) break; los[k] = 0; }
                if (k < 1) break;
            }
        }
    }
}

static void part_a() {
    const int NALL = (int)LEAVES.size();
    const int nfull = R->thorough() ? 5 : 4;        // all 13 leaf symbols
    const int ncore = R->thorough() ? 6 : 5;        // core alphabet (6 symbols) one level deeper
    for (int n = 1; n <= ncore; ++n) {
        const bool fullalpha = n <= nfull;
        const int nalpha = fullalpha ? NALL : n >= 6 ? NCORE - 1 : NCORE;        // 6 leaves: core alphabet without wAll (5 symbols)
        // redundant-parentheses variant: full alphabet to 4 leaves, core alphabet at 5, not at 6
        const int nalpha_par = n <= 4 ? NALL : n == 5 ? NCORE : 0;
        // n <= 3 is executed by every shard (26k cases) so that the reported reproducer of a defect that shows
        // there is the same minimal one whichever shard reports it; counted by shard 0 only.
        const bool sharded = n > 3;
        std::vector<Node> sh = shapes(n);
        // pre-pass: shard 0 (whose report vcheck prefers) walks the 4-leaf trees over the core alphabet unsharded and uncounted,
        // so that the reproducer stored for a defect that needs 4 leaves is a smallest one; every case is executed again below.
        if (n == 4 && R->shard == 0) for (auto s : sh) { int next = 0; number_slots(s, next); enum_shape(s, 4, NCORE, 0, false, false); }
        uint64_t before = R->evaluations;
        for (auto& s : sh) { int next = 0; number_slots(s, next); enum_shape(s, n, nalpha, nalpha_par, sharded, sharded || R->shard == 0); }
        if (R->shard == 0) R->count("tree_shapes_" + std::to_string(n) + "_leaves", (long long)sh.size());
        R->count(std::string("cond_cases_") + std::to_string(n) + "_leaves_" + (fullalpha ? "full" : n >= 6 ? "core5" : "core6") + "_alphabet", (long long)(R->evaluations - before));
    }
    if (R->shard == 0) {
        std::vector<int> los = {0, 4, 2};
        for (auto& s : shapes(3)) { Node c = s; int nx = 0; number_slots(c, nx); if (R->samples.size() < 3 && c.ch.size() == 2 && c.ch[0].leaf < 0) { std::vector<std::string> t; render(c, false, los, t); R->sample_str("cond " + sexpr(c, los) + " :: " + join(t)); } }
    }
}

// parse "A(O(sT,wP0),wP12)" back into a tree + leaf assignment
static Node parse_sexpr(const std::string& s, size_t& p, std::vector<int>& los) {
    Node n;
    if ((s[p] == 'A' || s[p] == 'O') && p + 1 < s.size() && s[p + 1] == '(') {
        n.is_and = s[p] == 'A'; p += 2;
        while (true) { n.ch.push_back(parse_sexpr(s, p, los)); if (s[p] == ',') { ++p; continue; } if (s[p] == ')') { ++p; break; } throw std::runtime_error("bad tree string"); }
        return n;
    }
    size_t e = p; while (e < s.size() && s[e] != ',' && s[e] != ')') ++e;
    std::string name = s.substr(p, e - p); p = e;
    for (size_t i = 0; i < LEAVES.size(); ++i) if (name == LEAVES[i].name) { n.leaf = (int)los.size(); los.push_back((int)i); return n; }
    throw std::runtime_error("unknown leaf " + name);
}

// =========================================================== part (c) ======
// CONTEXT REUSE: one Action::Context object (over the fixed SummaryState of part (a)) receives a sequence of
// operations; reference = plain map with overwrite semantics layered over the SummaryState values.  After every
// operation get() of every key and truth value + matching wells of every condition are compared.
struct CtxOp { const char* name; int kind; const char* func; const char* arg; double v; };   // kind 0: add(func,arg,v) 1: add(key,v) 2: get(func,arg) 3: eval condition #(int)v
static const std::vector<CtxOp> CTXOPS = {
    {"add(WOPR,P1,2)", 0, "WOPR", "P1", 2}, {"add(WOPR,P1,30)", 0, "WOPR", "P1", 30}, {"add(WOPR,P2,2)", 0, "WOPR", "P2", 2}, {"add(WOPR,P2,30)", 0, "WOPR", "P2", 30},
    {"add(GOPR,G1,10)", 0, "GOPR", "G1", 10}, {"add(GOPR,G1,70)", 0, "GOPR", "G1", 70},
    {"add(FOPR,-5)", 1, "FOPR", "", -5}, {"add(FOPR,200)", 1, "FOPR", "", 200},
    {"add(MNTH,3)", 1, "MNTH", "", 3}, {"add(DAY,20)", 1, "DAY", "", 20}, {"add(YEAR,2021)", 1, "YEAR", "", 2021},
    {"get(WOPR,P1)", 2, "WOPR", "P1", 0}, {"get(GOPR,G1)", 2, "GOPR", "G1", 0},
    {"eval(c0)", 3, "", "", 0}, {"eval(c1)", 3, "", "", 1}, {"eval(c3)", 3, "", "", 3}, {"eval(c4)", 3, "", "", 4},
};
struct CtxKey { const char* key; const char* func; const char* arg; const char* cat; double base; };
static const std::vector<CtxKey> CTXKEYS = {
    {"WOPR:I1", "WOPR", "I1", "well-quantity", 0.0}, {"WOPR:P1", "WOPR", "P1", "well-quantity", 10.0}, {"WOPR:P2", "WOPR", "P2", "well-quantity", 50.0},
    {"GOPR:G1", "GOPR", "G1", "group-quantity", GOPR_G1}, {"FOPR", "FOPR", "", "field-quantity", FOPR},
    {"MNTH", "MNTH", "", "date-quantity", DATE_MNTH}, {"DAY", "DAY", "", "date-quantity", DATE_DAY}, {"YEAR", "YEAR", "", "date-quantity", DATE_YEAR}, {"JUL", "JUL", "", "month-constant", 7.0},
};
struct CtxCond { const char* name; std::vector<std::string> tok; const char* cat; };
static const std::vector<CtxCond> CTXCONDS = {
    {"c0", {"FOPR", ">", "0"}, "field-quantity"}, {"c1", {"WOPR", "P*", ">", "5"}, "well-quantity"}, {"c2", {"WOPR", "*", "<", "20"}, "well-quantity"},
    {"c3", {"GOPR", "G1", ">", "50"}, "group-quantity"}, {"c4", {"MNTH", "=", "JUL"}, "date-quantity"}, {"c5", {"WOPR", "P1", ">", "5", "AND", "GOPR", "G1", ">", "50"}, "well-and-group"},
    {"c6", {"DAY", ">", "15"}, "date-quantity"}, {"c7", {"YEAR", "=", "2020"}, "date-quantity"},
};
using CtxRef = std::map<std::string, double>;
static double ctx_ref_get(const CtxRef& m, const std::string& key) { auto it = m.find(key); if (it != m.end()) return it->second; for (auto& k : CTXKEYS) if (key == k.key) return k.base; throw std::logic_error("harness: unknown key " + key); }
static Val ctx_ref_cond(const CtxRef& m, int c) {
    auto wset = [&](unsigned cand, const std::string& op, double rhs) { unsigned s = 0; for (auto& w : WELLS) if ((cand & w.bit) && cmp(ctx_ref_get(m, std::string("WOPR:") + w.name), op, rhs)) s |= w.bit; return s; };
    switch (c) {
    case 0: return {ctx_ref_get(m, "FOPR") > 0, false, 0};
    case 1: { unsigned s = wset(bP1 | bP2, ">", 5); return {s != 0, s != 0, s}; }
    case 2: { unsigned s = wset(bP1 | bP2 | bI1, "<", 20); return {s != 0, s != 0, s}; }
    case 3: return {ctx_ref_get(m, "GOPR:G1") > 50, false, 0};
    case 4: return {ctx_ref_get(m, "MNTH") == 7, false, 0};
    case 5: { unsigned s = wset(bP1, ">", 5); bool b = s != 0 && ctx_ref_get(m, "GOPR:G1") > 50; return {b, b, b ? s : 0u}; }
    case 6: return {ctx_ref_get(m, "DAY") > 15, false, 0};
    default: return {ctx_ref_get(m, "YEAR") == 2020, false, 0};
    }
}
static std::vector<Action::AST>* CTXAST;

static void ctx_check(const Action::Context& ctx, const CtxRef& ref, const std::function<std::string()>& cs) {
    auto rp = [&]() { return "{\"case\": " + vf::jstr(cs()) + "}"; };
    for (auto& k : CTXKEYS) {
        const double want = ctx_ref_get(ref, k.key);
        const double got = k.arg[0] ? ctx.get(k.func, k.arg) : ctx.get(std::string(k.key));
        if (got != want) { const std::string key = std::string("C18:ctx:get:") + k.cat; if (!known_key(key)) R->violation(key, std::string("Context::get(") + k.key + ") = " + vf::fmt17(got) + " after [" + cs() + "]; last value assigned (or SummaryState value) is " + vf::fmt17(want), rp()); }
    }
    for (size_t c = 0; c < CTXCONDS.size(); ++c) {
        const Val want = ctx_ref_cond(ref, (int)c);
        const Action::Result r = (*CTXAST)[c].eval(ctx);
        unsigned got_set = 0; for (const auto& w : r.matches().wells()) { unsigned bit = bOTHER; for (auto& x : WELLS) if (w == x.name) bit = x.bit; got_set |= bit; }
        if (r.conditionSatisfied() != want.b) { const std::string key = std::string("C18:ctx:cond:truth:") + CTXCONDS[c].cat; if (!known_key(key)) R->violation(key, "[" + join(CTXCONDS[c].tok) + "] evaluates to " + (want.b ? "false" : "true") + " on the reused Context after [" + cs() + "]; with the last assigned values it is " + (want.b ? "true" : "false"), rp()); }
        else if (want.b && got_set != (want.has ? want.set : 0u)) { const std::string key = std::string("C18:ctx:cond:wells:") + CTXCONDS[c].cat; if (!known_key(key)) R->violation(key, "[" + join(CTXCONDS[c].tok) + "] matches " + setstr(got_set) + " on the reused Context after [" + cs() + "]; with the last assigned values the set is " + setstr(want.has ? want.set : 0u), rp()); }
        R->observe(vf::fnv(std::string("ctx") + CTXCONDS[c].name + (r.conditionSatisfied() ? "T" : "F") + setstr(got_set)));
    }
}
static void ctx_run(const std::vector<int>& ops) {
    auto cs = [&]() { std::string s = "ctx"; for (int o : ops) { s += ' '; s += CTXOPS[o].name; } return s; };
    R->current(cs());
    try {
        Action::Context ctx(CE->st, CE->wlm); CtxRef ref;
        for (size_t i = 0; i < ops.size(); ++i) {
            const CtxOp& o = CTXOPS[ops[i]];
            switch (o.kind) {
            case 0: ctx.add(o.func, o.arg, o.v); ref[std::string(o.func) + ":" + o.arg] = o.v; break;
            case 1: ctx.add(std::string(o.func), o.v); ref[o.func] = o.v; break;
            case 2: (void)ctx.get(o.func, o.arg); break;
            default: (void)(*CTXAST)[(int)o.v].eval(ctx); break;
            }
            R->evaluations++;
            if (i + 1 == ops.size()) ctx_check(ctx, ref, cs);        // prefixes are checked as shorter sequences
        }
    } catch (const std::exception& e) { if (!known_key("C18:ctx:exception")) R->violation("C18:ctx:exception", std::string("sequence [") + cs() + "] threw: " + e.what(), "{\"case\": " + vf::jstr(cs()) + "}"); }
}
static void part_c() {
    const int D = R->thorough() ? 4 : 3, N = (int)CTXOPS.size();
    std::vector<Action::AST> asts; for (auto& c : CTXCONDS) asts.emplace_back(c.tok); CTXAST = &asts;
    uint64_t seqs = 0;
    if (R->shard == 0) { ctx_run({}); }                        // fresh Context, no operation
    for (int len = 1; len <= D; ++len)                         // shortest sequences first: a defect is reported on a shortest case
        for (int first = 0; first < N; ++first) {
            // lengths 1 and 2 (306 sequences) are run by every shard (same shortest reproducer whichever shard reports), counted by shard 0
            const bool all = len <= 2;
            if (!all && !R->mine()) continue;
            std::vector<int> ops(len, 0); ops[0] = first;
            const uint64_t ev0 = R->evaluations;
            while (true) {
                ctx_run(ops); ++seqs;
                int k = len - 1; for (; k >= 1; --k) { if (++ops[k] < N) break; ops[k] = 0; }
                if (k < 1) break;
            }
            if (all && R->shard != 0) { R->evaluations = ev0; }
        }
    if (R->shard == 0) R->sample_str("ctx add(WOPR,P1,2) add(WOPR,P1,30) eval(c1)  (one Context object, reference = overwrite map over the SummaryState values)");
    R->count("ctx_operation_sequences_max_length_" + std::to_string(D), (long long)seqs);
    CTXAST = nullptr;
}

// =========================================================== part (b) ======
static const std::time_t DAY = 86400;
struct TrigEnv {
    SummaryState stT{T0}, stF{T0};
    WListManager wlm;
    std::unique_ptr<Action::Context> ctxT, ctxF;
    TrigEnv() { stT.update("FOPR", 1.0); stF.update("FOPR", -1.0); ctxT = std::make_unique<Action::Context>(stT, wlm); ctxF = std::make_unique<Action::Context>(stF, wlm); }
};
static TrigEnv* TE;

struct Params { int mr, mw, so; };
// REDEFINITION events: the same ACTIONX name defined again at the current time (Actions::add gives it a new
// definition id); start time = time of the redefinition + so days (the schedule passes the report step's start
// time); different limits and a different (equivalent) condition text per variant.
static const int NREDEF = 3, MAXREDEF = 2;
static const Params RP[NREDEF] = {{2, 1, 0}, {3, 2, 1}, {1, 0, 0}};
static const std::vector<std::string> RCOND[NREDEF] = {{"FOPR", ">=", "1"}, {"FOPR", ">", "0.5"}, {"FOPR", ".GT.", "0"}};
struct Sim {                      // the simulator's view: action configuration + action state + clock + what it recorded itself
    Params p0, p;                 // initial / current definition's limits
    Action::Actions actions; Action::State state; std::time_t t = T0;
    std::time_t base = T0;        // time at which the current definition was made
    int nd = 0;                   // number of redefinitions so far = expected definition index
    int ns = 0;                   // number of serialisation round trips so far
    std::vector<std::time_t> runs;// runs of the CURRENT definition (the reference keeps count / last run per definition)
    std::time_t old_last = -1;    // last run of the oldest earlier definition that ever ran (history/ghost value, -1: none)
    explicit Sim(Params pp) : p0(pp), p(pp) {
        actions.add(Action::ActionX("A", (std::size_t)p.mr, double(p.mw) * DAY, T0 + p.so * DAY, std::vector<Action::Condition>{}, {"FOPR", ">", "0"}));
        // decoy that must never be pending within the horizon (start far in the future, same condition)
        actions.add(Action::ActionX("Z", 5, 0.0, T0 + 1000 * DAY, std::vector<Action::Condition>{}, {"FOPR", ">", "0"}));
    }
};
struct Abs { int rc, dl, el, gap, od; };
static Abs abstraction(const Sim& s) {
    Abs a;
    const Action::ActionX& A = s.actions["A"];
    a.rc = (int)s.state.run_count(A);                                                   // from the implementation state
    a.dl = a.rc == 0 ? -1 : (int)std::min<long>(3, (long)((s.t - s.state.run_time(A)) / DAY));
    a.el = (int)std::min<long>(2, (long)((s.t - s.base) / DAY));
    a.gap = s.runs.size() < 2 ? -1 : (int)std::min<long>(3, (long)((s.runs.back() - s.runs[s.runs.size() - 2]) / DAY));
    a.od = s.old_last < 0 ? -1 : (int)std::min<long>(3, (long)((s.t - s.old_last) / DAY));
    return a;
}
static std::string absstr(const Sim& s) { const Abs a = abstraction(s); char b[128]; std::snprintf(b, sizeof b, "%d %d %d %d %d %d %d %d %d", s.p.mr, s.p.mw, s.p.so, a.rc, a.dl, a.el, a.gap, s.nd, a.od); return b; }

// a violation that shows for a redefined action only gets its own key (":redefined") unless the same
// check already failed for a first definition (then it is the same defect)
static std::string rkey(const Sim& s, const std::string& base) {
    // likewise ":after-roundtrip" for a violation that needs a pack/unpack of the Actions / State objects in the history
    std::vector<std::string> cand = {base};
    if (s.nd > 0) cand.push_back(cand.back() + ":redefined");
    if (s.ns > 0) cand.push_back(cand.back() + ":after-roundtrip");
    for (size_t i = 0; i + 1 < cand.size(); ++i) for (auto& v : R->violations) if (v.key == cand[i]) return cand[i];
    return cand.back();
}
static std::string where_str(const Sim& s, const std::function<std::string()>& cs) {
    return " (definition #" + std::to_string(s.nd) + ": max_run " + std::to_string(s.p.mr) + ", min_wait " + std::to_string(s.p.mw) + " d, start +" + std::to_string(s.p.so) + " d; case " + cs() + ")";
}
// implementation bookkeeping (keyed by name + definition id) agrees with the list recorded for the current definition
static void check_state(const Sim& s, const std::function<std::string()>& cs) {
    auto rp = [&]() { return "{\"case\": " + vf::jstr(cs()) + "}"; };
    const Action::ActionX& A = s.actions["A"];
    if (s.state.run_count(A) != s.runs.size()) R->violation(rkey(s, "C18:trig:state:run-count"), "State::run_count = " + std::to_string(s.state.run_count(A)) + " after " + std::to_string(s.runs.size()) + " runs of this definition" + where_str(s, cs), rp());
    else if (!s.runs.empty() && s.state.run_time(A) != s.runs.back()) R->violation(rkey(s, "C18:trig:state:run-time"), "State::run_time is " + std::to_string((long)(s.runs.back() - s.state.run_time(A)) / DAY) + " d before the last run of this definition" + where_str(s, cs), rp());
}

// one evaluation of the simulator loop; every oracle of part (b) is applied here.  cs: lazily built case string.
static void sim_step(Sim& s, int dt, bool outcome, const std::function<std::string()>& cs) {
    auto rp = [&]() { return "{\"case\": " + vf::jstr(cs()) + "}"; };
    auto where = [&]() { return where_str(s, cs); };
    s.t += dt * DAY;
    const std::time_t start = s.base + s.p.so * DAY;
    const Action::ActionX& A = s.actions["A"];
    // reference predicate on the harness' own run list of the current definition
    const bool c_count = (int)s.runs.size() < s.p.mr;
    const bool c_start = s.t >= start;
    const bool c_wait = s.runs.empty() || (s.t - s.runs.back()) >= s.p.mw * DAY;
    const bool ref_ready = c_count && c_start && c_wait;

    bool impl_ready = false, ran = false;
    const auto pend = s.actions.pending(s.state, s.t);
    for (const auto* a : pend) { if (a->name() == "A") impl_ready = true; else R->violation("C18:trig:pending-wrong-action", "Actions::pending returned action " + a->name() + " whose start time is 1000 days ahead" + where(), rp()); }
    if (A.ready(s.state, s.t) != impl_ready) R->violation(rkey(s, "C18:trig:pending-ne-ready"), "Actions::pending and ActionX::ready disagree" + where(), rp());
    if (impl_ready != ref_ready) {
        const char* k = impl_ready ? (!c_count ? "ready-at-max-count" : !c_start ? "ready-before-start" : "ready-before-min-wait") : "refuses-when-ready";
        R->violation(rkey(s, std::string("C18:trig:ready:") + k), std::string("ActionX::ready = ") + (impl_ready ? "true" : "false") + " but reference (runs " + std::to_string(s.runs.size()) + ", t-start " + std::to_string((long)(s.t - start) / DAY) + " d, t-last " + (s.runs.empty() ? std::string("-") : std::to_string((long)(s.t - s.runs.back()) / DAY)) + " d) says " + (ref_ready ? "true" : "false") + where(), rp());
    }
    for (const auto* a : pend) {
        const Action::Result res = a->eval(outcome ? *TE->ctxT : *TE->ctxF);
        if (res.conditionSatisfied() != outcome) R->violation(rkey(s, "C18:trig:eval-outcome"), "the action's condition evaluated to the wrong truth value" + where(), rp());
        if (res.conditionSatisfied()) { s.state.add_run(*a, s.t, res); if (a->name() == "A") { s.runs.push_back(s.t); ran = true; } }
    }
    // invariants on the recorded run list (the three limits of the statement), independent of the reference predicate
    if (ran) {
        if ((int)s.runs.size() > s.p.mr) R->violation(rkey(s, "C18:trig:inv:more-runs-than-max"), "action ran " + std::to_string(s.runs.size()) + " times" + where(), rp());
        if (s.runs.size() >= 2 && s.runs.back() - s.runs[s.runs.size() - 2] < s.p.mw * DAY) R->violation(rkey(s, "C18:trig:inv:ran-before-min-wait"), "action ran " + std::to_string((long)(s.runs.back() - s.runs[s.runs.size() - 2]) / DAY) + " d after its previous run" + where(), rp());
        if (s.runs.back() < start) R->violation(rkey(s, "C18:trig:inv:ran-before-start"), "action ran before its start time" + where(), rp());
    }
    // a ready action whose condition is true does run
    if (ref_ready && outcome && !ran) R->violation(rkey(s, "C18:trig:live:ready-and-true-did-not-run"), "action was ready and its condition true but it did not run" + where(), rp());
    check_state(s, cs);
}

// REDEFINITION event k: the schedule defines the name again, now (no time passes).  The reference starts the new
// definition with count 0 and no previous run; the records of earlier definitions stay in Action::State.
static void sim_redefine(Sim& s, int k, const std::function<std::string()>& cs) {
    if (s.old_last < 0 && !s.runs.empty()) s.old_last = s.runs.back();
    s.p = RP[k]; s.base = s.t; s.runs.clear(); ++s.nd;
    s.actions.add(Action::ActionX("A", (std::size_t)s.p.mr, double(s.p.mw) * DAY, s.base + s.p.so * DAY, std::vector<Action::Condition>{}, RCOND[k]));
    check_state(s, cs);
}

// ROUND-TRIP event: the Actions object (S1) or the Actions object and the Action::State (S2) are packed with
// Serializer<MemPacker> and the history continues on the unpacked copies (MPI broadcast, save/load).  The reference
// is unaffected: a round trip must not change any future.
struct Ser : Serializer<Serialization::MemPacker> { Serialization::MemPacker pk; Ser() : Serializer<Serialization::MemPacker>(pk) {} };
static void sim_roundtrip(Sim& s, int variant, const std::function<std::string()>& cs) {
    auto rp = [&]() { return "{\"case\": " + vf::jstr(cs()) + "}"; };
    const std::string before = absstr(s);
    ++s.ns;
    try {
        { Ser sr; sr.pack(s.actions); Action::Actions fresh; sr.unpack(fresh); s.actions = fresh; }
        if (variant == 1) { Ser sr; sr.pack(s.state); Action::State fresh; sr.unpack(fresh); s.state = fresh; }
    } catch (const std::exception& e) { R->violation(rkey(s, "C18:trig:roundtrip:exception"), std::string("pack/unpack threw: ") + e.what() + where_str(s, cs), rp()); return; }
    check_state(s, cs);
    const std::string after = absstr(s);
    if (after != before) R->violation(rkey(s, "C18:trig:roundtrip-changes-state"), std::string("pack/unpack of Actions") + (variant == 1 ? " and Action::State" : "") + " changed the abstract state [" + before + "] to [" + after + "]" + where_str(s, cs), rp());
}

// events 0..5: evaluation (dt, outcome); 6..8: redefinition variants; 9..10: round trips
static const int NEV = 6 + NREDEF + 2;
static const char* EVNAME[NEV] = {"0T", "1T", "2T", "0F", "1F", "2F", "R1", "R2", "R3", "S1", "S2"};
static int g_max_s = 2;
static bool is_redef(int e) { return e >= 6 && e < 6 + NREDEF; }
static bool is_rt(int e) { return e >= 6 + NREDEF; }
static bool ev_enabled(const Sim& s, int e) { return e < 6 || (is_redef(e) ? s.nd < MAXREDEF : s.ns < g_max_s); }
static void apply_ev(Sim& s, int e, const std::function<std::string()>& cs) { if (e < 6) sim_step(s, e % 3, e < 3, cs); else if (is_redef(e)) sim_redefine(s, e - 6, cs); else sim_roundtrip(s, e - 6 - NREDEF, cs); }
static int parse_ev(const std::string& tok) { for (int e = 0; e < NEV; ++e) if (tok == EVNAME[e]) return e; return -1; }
static std::string p0str(const Sim& s) { return std::to_string(s.p0.mr) + " " + std::to_string(s.p0.mw) + " " + std::to_string(s.p0.so); }
struct Graph { std::unordered_map<std::string, std::string> succ; std::unordered_set<std::string> states; };

// L: bound on the length of a history without redefinition, Lr: of a history that contains one
static void dfs(const Sim& s, int depth, int L, int Lr, std::vector<int>& hist, Graph& g, const Graph& cl, uint64_t& steps, uint64_t& histories, uint64_t& histories_redef, uint64_t& histories_rt) {
    if (depth >= (s.nd > 0 || s.ns > 0 ? Lr : L)) { ++(s.ns > 0 ? histories_rt : s.nd > 0 ? histories_redef : histories); return; }
    const std::string from = absstr(s);
    for (int e = 0; e < NEV; ++e) {
        if (!ev_enabled(s, e) || (e >= 6 && depth >= Lr)) continue;     // redefinitions and round trips only within the shorter bound
        Sim n = s;
        hist.push_back(e);
        auto cs = [&]() { std::string c = "trig " + p0str(s) + " |"; for (int x : hist) { c += ' '; c += EVNAME[x]; } return c; };
        if ((steps & 0xfff) == 0) R->current(cs());
        apply_ev(n, e, cs);
        ++steps;
        const std::string to = absstr(n);
        if (is_rt(e)) { dfs(n, depth + 1, L, Lr, hist, g, cl, steps, histories, histories_redef, histories_rt); hist.pop_back(); continue; }     // stuttering step: checked inside sim_roundtrip
        g.states.insert(to);
        g.succ.emplace(from + " | " + EVNAME[e], to);
        auto it = cl.succ.find(from + " | " + EVNAME[e]);
        if (it == cl.succ.end() || it->second != to)       // the abstract key must determine the future (else the dedup key is wrong or the implementation depends on something else, e.g. records of earlier definitions)
            R->violation(rkey(n, "C18:trig:abstract-key-not-deterministic"), "abstract state [" + from + "] + " + EVNAME[e] + " led to [" + (it == cl.succ.end() ? std::string("(not in the closed graph)") : it->second) + "] and to [" + to + "]", "{\"case\": " + vf::jstr(cs()) + "}");
        dfs(n, depth + 1, L, Lr, hist, g, cl, steps, histories, histories_redef, histories_rt);
        hist.pop_back();
    }
}

static void part_b() {
    const int L = R->thorough() ? 8 : 6, Lr = R->thorough() ? 7 : 6;
    g_max_s = R->thorough() ? 2 : 1;
    uint64_t steps = 0, cl_steps = 0, histories = 0, histories_redef = 0, histories_rt = 0;
    // closure of the abstract graph without depth bound, from all 32 initial definitions (BFS with the abstract key as
    // dedup key, one concrete representative per state = a shortest history that reaches it, so a defect is first
    // reported on a shortest case); every transition runs the real code + oracles.  Redefinition merges the graphs of
    // the initial parameter sets, so the closure is computed by every shard (cheap) and reported by shard 0.
    Graph cl; std::deque<std::pair<Sim, std::string>> fr;
    for (int mr = 0; mr <= 3; ++mr) for (int mw = 0; mw <= 3; ++mw) for (int so : {0, 2}) { Sim s0(Params{mr, mw, so}); cl.states.insert(absstr(s0)); fr.push_back({s0, ""}); }
    while (!fr.empty()) {
        auto [cur, path] = fr.front(); fr.pop_front();
        const std::string from = absstr(cur);
        for (int e = 0; e < NEV; ++e) {
            if (!ev_enabled(cur, e)) continue;
            if (is_rt(e)) {
                // round trip inserted before every event of this state (shortest reproducers for round-trip defects):
                // the state must not change and every successor must be the one reached without the round trip
                Sim r = cur; const std::string pr = path + " " + EVNAME[e];
                auto csr = [&]() { return "trig " + p0str(cur) + " |" + pr; };
                apply_ev(r, e, csr); ++cl_steps;
                for (int e2 = 0; e2 < NEV; ++e2) {
                    if (is_rt(e2) || !ev_enabled(r, e2)) continue;
                    Sim n2 = r; const std::string p3 = pr + " " + EVNAME[e2];
                    auto cs2 = [&]() { return "trig " + p0str(cur) + " |" + p3; };
                    apply_ev(n2, e2, cs2); ++cl_steps;
                    Sim n1 = cur; apply_ev(n1, e2, cs2);
                    if (absstr(n2) != absstr(n1)) R->violation(rkey(n2, "C18:trig:roundtrip-changes-future"), std::string("after a pack/unpack the event ") + EVNAME[e2] + " leads from [" + from + "] to [" + absstr(n2) + "], without it to [" + absstr(n1) + "]" + where_str(n2, cs2), "{\"case\": " + vf::jstr(cs2()) + "}");
                }
                continue;
            }
            Sim n = cur; const std::string p2 = path + " " + EVNAME[e];
            auto cs = [&]() { return "trig " + p0str(cur) + " |" + p2; };
            apply_ev(n, e, cs); ++cl_steps;
            const std::string to = absstr(n);
            auto ins = cl.succ.emplace(from + " | " + EVNAME[e], to);
            if (!ins.second && ins.first->second != to) R->violation(rkey(n, "C18:trig:abstract-key-not-deterministic"), "abstract state [" + from + "] + " + EVNAME[e] + " led to [" + ins.first->second + "] and to [" + to + "]", "{\"case\": " + vf::jstr(cs()) + "}");
            if (cl.states.insert(to).second) fr.push_back({n, p2});
        }
    }
    if (R->shard == 0) {
        R->states += cl.states.size(); R->transitions += cl.succ.size(); steps += cl_steps;
        long long s0 = 0, t0 = 0;
        for (auto& st : cl.states) { int v[9]; std::sscanf(st.c_str(), "%d %d %d %d %d %d %d %d %d", v, v + 1, v + 2, v + 3, v + 4, v + 5, v + 6, v + 7, v + 8); if (v[7] == 0) ++s0; }
        for (auto& [k, v] : cl.succ) { R->observe(vf::fnv(k + " -> " + v)); if (k.find(" | R") != std::string::npos) ++t0; }
        R->count("trig_closed_graph_states_first_definition", s0); R->count("trig_closed_graph_redefinition_transitions", t0);
        R->count("trig_frontier_left", 0);
        R->sample_str("trig closed abstract graph (mr mw so rc dl el gap id od): " + std::to_string(cl.states.size()) + " states (" + std::to_string(s0) + " before any redefinition), " + std::to_string(cl.succ.size()) + " transitions (" + std::to_string(t0) + " redefinitions)");
    }
    Graph g;
    for (int mr = 0; mr <= 3; ++mr) for (int mw = 0; mw <= 3; ++mw) for (int so : {0, 2}) {
        if (!R->mine()) continue;
        if (R->timed_out()) return;
        Sim s(Params{mr, mw, so}); std::vector<int> hist;      // every step of every history is compared with the closed graph's successor map
        g.states.insert(absstr(s));
        dfs(s, 0, L, Lr, hist, g, cl, steps, histories, histories_redef, histories_rt);
    }
    bool nondet = false; for (auto& v : R->violations) if (v.key.find("abstract-key-not-deterministic") != std::string::npos) nondet = true;
    if (!nondet) for (auto& st : g.states) if (!cl.states.count(st)) R->violation("C18:harness:closure-misses-state", "state [" + st + "] reached by a history is not in the closed abstract graph");
    R->evaluations += steps;
    R->count("trig_histories_length_" + std::to_string(L) + "_single_definition", (long long)histories);
    R->count("trig_histories_length_" + std::to_string(Lr) + "_with_1_or_2_redefinitions", (long long)histories_redef);
    R->count("trig_histories_length_" + std::to_string(Lr) + "_with_roundtrips_max_" + std::to_string(g_max_s), (long long)histories_rt);
    R->count("trig_steps_on_real_code", (long long)steps);
}

// one TLC edge: "mr mw so rc dl el gap id od | 1T | mr mw so rc dl el gap id od | mr0 mw0 so0 0F R2 2T ..."
// (source | action | target | initial definition + BFS-tree path to the source)
static void replay_edge(const std::string& line) {
    std::vector<std::string> sec(1); { std::istringstream ss(line); std::string tok; while (ss >> tok) { if (tok == "|") sec.emplace_back(); else { if (!sec.back().empty()) sec.back() += ' '; sec.back() += tok; } } }
    std::string rp = "{\"case\": " + vf::jstr("edge " + line) + "}";
    if (sec.size() < 4) { R->violation("C18:tla-edge:bad-line", "cannot parse edge line [" + line + "]", rp); return; }
    std::istringstream ps(sec[3]); Params p0{};
    if (!(ps >> p0.mr >> p0.mw >> p0.so)) { R->violation("C18:tla-edge:bad-line", "cannot parse initial definition of [" + line + "]", rp); return; }
    Sim s(p0);
    auto cs = [&]() { return "edge " + line; };
    { std::string tok; while (ps >> tok) { int e = parse_ev(tok); if (e < 0 || !ev_enabled(s, e)) { R->violation("C18:tla-edge:bad-line", "bad path event in [" + line + "]", rp); return; } apply_ev(s, e, cs); } }
    R->evaluations++; R->traces_validated++;
    if (absstr(s) != sec[0]) { R->violation(rkey(s, "C18:tla-edge:path-does-not-reach-source"), "replaying the model path [" + sec[3] + "] on the implementation gives [" + absstr(s) + "], the model says [" + sec[0] + "]", rp); return; }
    const int e = parse_ev(sec[1]); if (e < 0 || !ev_enabled(s, e)) { R->violation("C18:tla-edge:bad-line", "bad action in [" + line + "]", rp); return; }
    // conformance variants: the edge as it is, and with a serialisation round trip (a stuttering step of the model)
    // of Actions (S1) / Actions + State (S2) inserted between the source state and the edge's event
    const Sim src = s;
    for (int variant = 0; variant < 3; ++variant) {
        Sim v = src;
        if (variant > 0) { apply_ev(v, 6 + NREDEF + variant - 1, cs); R->evaluations++; R->count("edges_replayed_with_roundtrip_inserted"); }
        const size_t before = v.runs.size();
        apply_ev(v, e, cs);
        const std::string got = absstr(v);
        R->observe(vf::fnv(sec[0] + "|" + sec[1] + "|" + got + (variant ? "|S" : "")));
        if (got != sec[2]) R->violation(rkey(v, std::string("C18:tla-edge:target-differs:") + (e >= 6 ? "redefine" : v.runs.size() > before ? "impl-ran" : "impl-did-not-run")), "TLC edge [" + sec[0] + "] --" + (variant ? std::string(EVNAME[6 + NREDEF + variant - 1]) + " " : std::string()) + sec[1] + "--> [" + sec[2] + "]: the implementation reaches [" + got + "]", rp);
    }
}

int main(int argc, char** argv) {
    vf::Run run("C18", argc, argv); R = &run;
    init_leaves();
    CondEnv ce; CE = &ce; TrigEnv te; TE = &te;
    std::string edges_file; bool only_a = false, only_b = false, only_c = false;
    for (int i = 1; i < argc; ++i) { std::string a = argv[i]; if (a == "--edges" && i + 1 < argc) edges_file = argv[i + 1]; if (a == "--only-a") only_a = true; if (a == "--only-b") only_b = true; if (a == "--only-c") only_c = true; }

    const std::string rule_a = std::string("(a) every Boolean tree with <= ") + (run.thorough() ? "5" : "4") + " comparisons over the 13-symbol leaf alphabet {" + [] { std::string s; for (auto& l : LEAVES) { if (!s.empty()) s += ", "; s += join(l.tok); } return s; }() +
        "} and " + (run.thorough() ? "6 comparisons over its first 5 symbols;" : "5 comparisons over its first 6 symbols;") + " internal nodes AND/OR freely labelled (so same-operator nesting is included), rendered with the parentheses that keep the tree plus a fully parenthesised variant, parenthesis nesting <= 3; seam Action::AST(tokens).eval(Context) on a fixed SummaryState (15 JUL 2020, wells I1 P1 P2, group G1, WLIST *L1); oracle: reference evaluator = truth value of the Boolean expression and, when it is true, the sorted matching-well list = intersection under AND / union under OR where scalar and false sub-conditions contribute no set (the set of a false condition is not compared)";
    const std::string rule_b = std::string("(b) histories over the events {evaluation (dt in {0,1,2} d) x (condition T/F)} + {REDEFINITION R1 (max_run 2, min_wait 1 d, start +0), R2 (3, 2 d, +1 d), R3 (1, 0, +0): the same ACTIONX name added again at the current time with other limits and another condition text, at most 2 per history} + {ROUND TRIP S1: the Actions object, S2: Actions and Action::State are packed with Serializer<MemPacker> and the history continues on the unpacked copies, at most ") + (run.thorough() ? "2" : "1") + " per history, at every position}: every history of " + (run.thorough() ? "8 evaluations and every history of length 7 with redefinitions and/or round trips" : "length 6") + ", for the first definition max_run {0..3} x min_wait {0..3} d x start offset {0,2} d (so a redefinition follows 0, 1 .. max_run runs of the earlier definition), driven as the simulator does: Actions::add / Actions::pending(state,t) -> ActionX::eval -> State::add_run; reference keeps run count and last-run time per definition (a redefinition starts with count 0 and no previous run); oracles after every event: ready()/pending() == reference predicate, |runs| <= max_run, consecutive runs >= min_wait apart, no run before start, ready and true => runs, State::run_count/run_time of the current definition == recorded list; a round trip is a stuttering step of the reference (abstract state unchanged, same future: additionally, from every state of the closed graph, S + event must reach the successor that the event alone reaches); states/transitions = abstract graph (limits, run count, days since last run cap 3, days since definition cap 2, last gap cap 3, definition index, ghost: age of the last run of the oldest earlier definition cap 3) closed by an unbounded BFS on the real code from all 32 first definitions (frontier 0), determinism of the abstract key checked on every step of every history";
    run.assumptions = {
        "A1: a well-level comparison over a pattern/list is true iff it holds for at least one well (the statement fixes the set, not this truth value)",
        "matching set compared only when the whole condition is true (for a false condition the statement's 'contributes no set' and the implementation's cleared set coincide; counted in false_condition_with_nonempty_set otherwise)",
        "reference values of the 13 leaves are computed by the harness from its own table of summary values, glob patterns resolved by hand (P* -> P1,P2; * -> I1,P1,P2; *L1 -> P2,I1)",
        "MNTH numeric right-hand sides are integers (the nearest-integer convention for MNTH is not in the statement and not exercised)",
        "condition outcome in part (b) is produced by really evaluating the definition's condition (FOPR > 0, FOPR >= 1, FOPR > 0.5, FOPR .GT. 0) on a summary state with FOPR = +1 / -1",
        "part (c): Action::Context::add is assumed to have assignment (last value wins) semantics over the SummaryState value, as the simulator re-uses one Context while updating well/group/date quantities",
        "serialisation round trips use Opm::Serializer<Opm::Serialization::MemPacker> on Action::Actions (and Action::State); only behaviour after the round trip is judged (structural equality is C11's business)",
        "a redefinition is a new action: the three limits are judged per definition (name + definition index), as ActionX::ready/State::run_count/run_time key them; its start time is the time of the redefinition + offset",
        "the triage model of the empty-but-present set only selects the violation key; verdicts come from the reference evaluator alone"};

    if (!edges_file.empty()) {
        run.rule = "model tier: every edge of the TLC state graph of models/C18_trigger.tla, Step(dt,c) and Redefine(k) edges alike (source | action | target | first definition + BFS-tree path) replayed three times - as is, and with a serialisation round trip of Actions / of Actions and Action::State inserted before the edge's event (a stuttering step of the model) - on Actions::add / Actions::pending / ActionX::ready / ActionX::eval / State::add_run; the abstraction of the implementation state after the path must equal the source and after the action the target; all part (b) step oracles active during the replay";
        std::ifstream in(edges_file); std::string line, last;
        while (std::getline(in, line)) { if (line.empty()) continue; if (!run.mine()) continue; run.current("edge " + line); replay_edge(line); last = line; }
        if (!last.empty()) run.sample_str("edge " + last);
        return run.finish();
    }
    if (!run.replay_path.empty()) {
        const std::string& c = run.replay_path;
        try {
            if (c.rfind("cond ", 0) == 0) {
                size_t e = c.find(" :: "); std::string head = c.substr(5, e == std::string::npos ? std::string::npos : e - 5);
                bool full = head.size() > 5 && head.substr(head.size() - 5) == " full";
                std::string tree = head.substr(0, head.find(' '));
                std::vector<int> los; size_t p = 0; Node n = parse_sexpr(tree, p, los);
                run_cond(n, full, los, true);
            } else if (c.rfind("trig ", 0) == 0) {
                std::istringstream ss(c.substr(5)); Params p{}; std::string tok; ss >> p.mr >> p.mw >> p.so >> tok;
                Sim s(p); auto cs = [&]() { return c; };
                while (ss >> tok) { int e = parse_ev(tok); if (e >= 0 && ev_enabled(s, e)) { apply_ev(s, e, cs); run.evaluations++; } }
            } else if (c.rfind("ctx", 0) == 0) {
                std::vector<Action::AST> asts; for (auto& cc : CTXCONDS) asts.emplace_back(cc.tok); CTXAST = &asts;
                std::istringstream ss(c.substr(3)); std::string tok; std::vector<int> ops;
                while (ss >> tok) for (size_t i = 0; i < CTXOPS.size(); ++i) if (tok == CTXOPS[i].name) ops.push_back((int)i);
                for (size_t k = 0; k <= ops.size(); ++k) ctx_run(std::vector<int>(ops.begin(), ops.begin() + k));      // every prefix is judged
            } else if (c.rfind("edge ", 0) == 0) replay_edge(c.substr(5));
            else run.violation("C18:harness:bad-replay", "cannot parse replay case [" + c + "]");
        } catch (const std::exception& e) { run.violation("C18:harness:bad-replay", std::string("replay threw: ") + e.what()); }
        return run.finish();
    }
    const std::string rule_c = std::string("(c) CONTEXT REUSE: one Action::Context object over the fixed SummaryState, every sequence of <= ") + (run.thorough() ? "4" : "3") + " operations over {" + [] { std::string s; for (auto& o : CTXOPS) { if (!s.empty()) s += ", "; s += o.name; } return s; }() + "} (c_i = condition i of: " + [] { std::string s; for (auto& c : CTXCONDS) { if (!s.empty()) s += "; "; s += std::string(c.name) + " = " + join(c.tok); } return s; }() + "); reference = plain map with overwrite semantics layered over the SummaryState values; after every sequence get() of every key (3 wells, group, field, MNTH/DAY/YEAR, JUL) and truth value + matching wells of all 8 conditions are compared";
    run.rule = rule_a + " || " + rule_b + " || " + rule_c;
    if (only_c) { part_c(); return run.finish(); }
    if (!only_a) part_b();
    if (!only_a && !only_b) part_c();
    if (!only_b) part_a();
    return run.finish();
}
