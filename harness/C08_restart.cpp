// C08 — unified restart file: history model (E2 BFS, state = file bytes),
// crash images (E3: every byte prefix of the logged mutation sequence) and,
// with --edges, replay of every edge of the TLC state graph (model tier M).
#include "vf.hpp"
#include <opm/io/eclipse/ERst.hpp>
#include <opm/io/eclipse/OutputStream.hpp>
#include <dlfcn.h>
#include <fcntl.h>
#include <filesystem>
#include <sys/stat.h>
#include <sys/uio.h>
#include <cstdarg>

namespace OS = Opm::EclIO::OutputStream;
namespace fs = std::filesystem;

// ------------------------------------------------------------ E3 logging ---
struct Op { char kind; long long off; std::string data; };     // 'T' truncate(off), 'W' write(off,data), 'O' open-with-truncate
static std::vector<Op> g_log;
static bool g_logging = false;
static std::string g_target;                                    // absolute path of watched file

static bool is_target_fd(int fd) {
    char lnk[64], buf[4096];
    std::snprintf(lnk, sizeof lnk, "/proc/self/fd/%d", fd);
    ssize_t n = readlink(lnk, buf, sizeof buf - 1);
    if (n <= 0) return false;
    buf[n] = 0;
    return g_target == buf;
}
extern "C" {
ssize_t write(int fd, const void* b, size_t n) {
    static auto real = (ssize_t(*)(int, const void*, size_t))dlsym(RTLD_NEXT, "write");
    if (g_logging && is_target_fd(fd)) {
        struct stat st; fstat(fd, &st);
        int fl = fcntl(fd, F_GETFL);
        long long off = (fl & O_APPEND) ? (long long)st.st_size : (long long)lseek(fd, 0, SEEK_CUR);
        ssize_t r = real(fd, b, n);
        if (r > 0) g_log.push_back({'W', off, std::string((const char*)b, r)});
        return r;
    }
    return real(fd, b, n);
}
ssize_t writev(int fd, const struct iovec* iov, int cnt) {
    static auto real = (ssize_t(*)(int, const struct iovec*, int))dlsym(RTLD_NEXT, "writev");
    if (g_logging && is_target_fd(fd)) {
        struct stat st; fstat(fd, &st);
        int fl = fcntl(fd, F_GETFL);
        long long off = (fl & O_APPEND) ? (long long)st.st_size : (long long)lseek(fd, 0, SEEK_CUR);
        std::string all; for (int i = 0; i < cnt; ++i) all.append((const char*)iov[i].iov_base, iov[i].iov_len);
        ssize_t r = real(fd, iov, cnt);
        if (r > 0) g_log.push_back({'W', off, all.substr(0, r)});
        return r;
    }
    return real(fd, iov, cnt);
}
ssize_t pwrite(int fd, const void* b, size_t n, off_t off) {
    static auto real = (ssize_t(*)(int, const void*, size_t, off_t))dlsym(RTLD_NEXT, "pwrite");
    ssize_t r = real(fd, b, n, off);
    if (g_logging && r > 0 && is_target_fd(fd)) g_log.push_back({'W', (long long)off, std::string((const char*)b, r)});
    return r;
}
int truncate(const char* p, off_t len) {
    static auto real = (int (*)(const char*, off_t))dlsym(RTLD_NEXT, "truncate");
    if (g_logging && g_target == p) g_log.push_back({'T', (long long)len, ""});
    return real(p, len);
}
int truncate64(const char* p, off_t len) { return truncate(p, len); }
int ftruncate(int fd, off_t len) {
    static auto real = (int (*)(int, off_t))dlsym(RTLD_NEXT, "ftruncate");
    if (g_logging && is_target_fd(fd)) g_log.push_back({'T', (long long)len, ""});
    return real(fd, len);
}
int ftruncate64(int fd, off_t len) { return ftruncate(fd, len); }
int unlink(const char* p) {
    static auto real = (int (*)(const char*))dlsym(RTLD_NEXT, "unlink");
    if (g_logging && g_target == p) g_log.push_back({'U', 0, ""});
    return real(p);
}
int rename(const char* a, const char* b) {
    static auto real = (int (*)(const char*, const char*))dlsym(RTLD_NEXT, "rename");
    if (g_logging && (g_target == a || g_target == b)) g_log.push_back({'R', 0, ""});
    return real(a, b);
}
static void note_open(const char* p, bool trunc) {
    if (!g_logging || !trunc || g_target != p) return;
    struct stat st; if (stat(p, &st) == 0 && st.st_size > 0) g_log.push_back({'O', 0, ""});
}
FILE* fopen(const char* p, const char* m) {
    static auto real = (FILE * (*)(const char*, const char*)) dlsym(RTLD_NEXT, "fopen");
    note_open(p, m && m[0] == 'w'); return real(p, m);
}
FILE* fopen64(const char* p, const char* m) {
    static auto real = (FILE * (*)(const char*, const char*)) dlsym(RTLD_NEXT, "fopen64");
    note_open(p, m && m[0] == 'w'); return real(p, m);
}
int open(const char* p, int fl, ...) {
    static auto real = (int (*)(const char*, int, ...))dlsym(RTLD_NEXT, "open");
    va_list ap; va_start(ap, fl); mode_t md = va_arg(ap, mode_t); va_end(ap);
    note_open(p, fl & O_TRUNC); return real(p, fl, md);
}
int open64(const char* p, int fl, ...) {
    static auto real = (int (*)(const char*, int, ...))dlsym(RTLD_NEXT, "open64");
    va_list ap; va_start(ap, fl); mode_t md = va_arg(ap, mode_t); va_end(ap);
    note_open(p, fl & O_TRUNC); return real(p, fl, md);
}
}

// --------------------------------------------------------------- driver ---
static vf::Run* R;
static std::string g_dir;

struct Payload { std::vector<int> ih; std::vector<double> d; std::vector<float> big; std::vector<std::string> names; std::vector<int> blocks; };
static Payload payload(int s, int v) {
    Payload p;
    p.ih.assign(10 + s, s * 10 + v);
    p.d.assign(3 + 2 * s + 7 * v, 1.5 * s + v);
    p.big.assign(v ? 1001 : 2, 0.25f * s + v);
    for (size_t i = 0; i < p.big.size(); ++i) p.big[i] += float(i % 7);
    // step 2 version B: 109 strings of 10 characters (a C010 array of more than one 105-string block, 6 strings per line)
    p.names.assign(1 + (s % 3) + 106 * v * (s == 2), ((v && s == 2) ? std::string("LONGNAME") : std::string("W")) + std::to_string(s) + (v ? "B" : "A"));
    // an array whose length is an exact multiple of the sub-block size (two full blocks): a torn second block has the
    // same head/tail words as the first one
    p.blocks.assign((v && s == 1) ? 2000 : 3, 7 * s + v + 1);
    for (size_t i = 0; i < p.blocks.size(); ++i) p.blocks[i] += int(i % 5);
    return p;
}
static void write_step(const std::string& dir, int s, int v, bool fmt) {
    OS::Restart r{OS::ResultSet{dir, "CASE"}, s, OS::Formatted{fmt}, OS::Unified{true}};
    Payload p = payload(s, v);
    r.write("INTEHEAD", p.ih);
    r.write("DATA", p.d);
    r.write("BIG", p.big);
    r.write("ZWEL", p.names);
    r.write("IBLK", p.blocks);
}
static std::string fname(const std::string& dir, bool fmt) { return dir + (fmt ? "/CASE.FUNRST" : "/CASE.UNRST"); }
static std::string slurp(const std::string& fn) { std::ifstream f(fn, std::ios::binary); if (!f) return ""; std::stringstream ss; ss << f.rdbuf(); return ss.str(); }
static void spit(const std::string& fn, const std::string& s) { std::ofstream f(fn, std::ios::binary | std::ios::trunc); f.write(s.data(), s.size()); }

using Model = std::vector<std::pair<int, int>>;      // surviving (step, version), increasing
static void model_write(Model& m, int s, int v) { while (!m.empty() && m.back().first >= s) m.pop_back(); m.push_back({s, v}); }
static std::string mstr(const Model& m) { std::string o; for (auto& [s, v] : m) { o += std::to_string(s); o += v ? 'B' : 'A'; o += ' '; } return o; }

static std::map<std::string, std::string> g_fresh_cache;
static std::string fresh_bytes(const Model& m, bool fmt) {
    std::string key = (fmt ? "F" : "U") + mstr(m);
    auto it = g_fresh_cache.find(key); if (it != g_fresh_cache.end()) return it->second;
    std::string d = g_dir + "/fresh"; fs::remove_all(d); fs::create_directories(d);
    for (auto& [s, v] : m) write_step(d, s, v, fmt);
    return g_fresh_cache[key] = slurp(fname(d, fmt));
}

// verify through the reader that file content == model; returns "" or complaint.
// mode: strict (state invariant) -> everything must read; lenient (crash image) -> exceptions allowed, wrong data not.
static std::string read_check(const std::string& fn, const std::vector<Model>& allowed, bool strict, bool* opened = nullptr) {
    try {
        Opm::EclIO::ERst rst(fn);
        if (opened) *opened = true;
        std::vector<int> steps = rst.listOfReportStepNumbers();
        if (strict) {
            std::vector<int> want; for (auto& [s, v] : allowed[0]) want.push_back(s);
            if (steps != want) return "report steps listed " + vf::join_ints(steps) + " != model " + vf::join_ints(want);
        }
        for (size_t k = 1; k < steps.size(); ++k) if (steps[k] <= steps[k - 1]) return "report steps not strictly increasing: " + vf::join_ints(steps);
        for (int s : steps) {
            // the payload version this step may legitimately have
            std::set<int> vers;
            for (auto& m : allowed) for (auto& [ms, mv] : m) if (ms == s) vers.insert(mv);
            if (vers.empty()) return "report step " + std::to_string(s) + " is listed but belongs to neither the old nor the new history";
            int got = -1;
            try {
                const auto& ih = rst.getRestartData<int>("INTEHEAD", s, 0);
                for (int v : vers) if (ih == payload(s, v).ih) got = v;
                if (got < 0) return "INTEHEAD of step " + std::to_string(s) + " read back with wrong data";
                Payload p = payload(s, got);
                if (rst.getRestartData<double>("DATA", s, 0) != p.d) return "DATA of step " + std::to_string(s) + " read back with wrong data";
                if (rst.getRestartData<float>("BIG", s, 0) != p.big) return "BIG of step " + std::to_string(s) + " read back with wrong data";
                if (rst.getRestartData<std::string>("ZWEL", s, 0) != p.names) return "ZWEL of step " + std::to_string(s) + " read back with wrong data";
                if (rst.getRestartData<int>("IBLK", s, 0) != p.blocks) return "IBLK of step " + std::to_string(s) + " read back with wrong data";
            } catch (const std::exception& e) {
                if (strict) return std::string("reading step ") + std::to_string(s) + " threw: " + e.what();
            }
        }
    } catch (const std::exception& e) {
        if (strict) return std::string("ERst threw: ") + e.what();
    }
    return "";
}

// E2 over the reader's own state: every sequence of <= depth queries on ONE ERst object, then every array of every step must
// still read back as the model says (what a reader returns must not depend on what was asked before)
static int g_order_depth = 2;
static void order_check(const std::string& fn, const Model& m, const std::string& tag, const std::string& hs, const std::string& rp) {
    if (m.size() < 2) return;
    const int first = m.front().first, last = m.back().first;
    static const char* opn[] = {"loadReportStepNumber(first)", "loadReportStepNumber(last)", "getRestartData<int>(IBLK,last)", "getRestartData<double>(DATA,first)", "listOfRstArrays(first)", "listOfRstArrays(last)", "hasArray(BIG,last)", "getRestartData<std::string>(ZWEL,first)"};
    const int NOP = 8;
    std::vector<int> seq;
    std::function<void()> rec = [&]() {
        if (!seq.empty()) {
            std::string sn; for (int o : seq) sn += std::string(sn.empty() ? "" : " ; ") + opn[o];
            try {
                Opm::EclIO::ERst rst(fn);
                for (int o : seq) switch (o) {
                    case 0: rst.loadReportStepNumber(first); break;
                    case 1: rst.loadReportStepNumber(last); break;
                    case 2: (void)rst.getRestartData<int>("IBLK", last, 0); break;
                    case 3: (void)rst.getRestartData<double>("DATA", first, 0); break;
                    case 4: (void)rst.listOfRstArrays(first); break;
                    case 5: (void)rst.listOfRstArrays(last); break;
                    case 6: (void)rst.hasArray("BIG", last); break;
                    case 7: (void)rst.getRestartData<std::string>("ZWEL", first, 0); break;
                }
                std::string bad;
                for (auto& [st, v] : m) {
                    Payload p = payload(st, v);
                    if (rst.getRestartData<int>("INTEHEAD", st, 0) != p.ih) bad = "INTEHEAD"; else if (rst.getRestartData<double>("DATA", st, 0) != p.d) bad = "DATA"; else if (rst.getRestartData<float>("BIG", st, 0) != p.big) bad = "BIG";
                    else if (rst.getRestartData<std::string>("ZWEL", st, 0) != p.names) bad = "ZWEL"; else if (rst.getRestartData<int>("IBLK", st, 0) != p.blocks) bad = "IBLK";
                    if (!bad.empty()) { bad += " of step " + std::to_string(st); break; }
                    auto lst = rst.listOfRstArrays(st); if (lst.size() != 5 && lst.size() != 6) { bad = "listOfRstArrays(" + std::to_string(st) + ") has " + std::to_string(lst.size()) + " entries"; break; }
                }
                if (!bad.empty()) R->violation(tag + ":reader-order:value", "file after history [" + hs + "]: " + bad + " reads back wrong after the query sequence [" + sn + "] on one ERst object", rp);
                R->count("reader_sequences");
            } catch (const std::exception& e) { R->violation(tag + ":reader-order:throws", "file after history [" + hs + "]: ERst throws (" + std::string(e.what()).substr(0, 160) + ") in/after the query sequence [" + sn + "] on one object", rp); }
        }
        if ((int)seq.size() == g_order_depth) return;
        for (int o = 0; o < NOP; ++o) { seq.push_back(o); rec(); seq.pop_back(); }
    };
    rec();
}

struct Ev { int s, v; };
static std::vector<Ev> g_events;
static std::string hist_str(const std::vector<int>& h) { std::string o; for (int e : h) { o += std::to_string(g_events[e].s); o += g_events[e].v ? "B" : "A"; o += " "; } return o; }

// Applies event e to the file state `bytes` (real code), returns new bytes; fills log if asked.
static std::string apply(const std::string& bytes, bool had_file, int e, bool fmt, bool log) {
    std::string d = g_dir + "/work"; fs::remove_all(d); fs::create_directories(d);
    std::string fn = fname(d, fmt);
    if (had_file) spit(fn, bytes);
    g_target = fn; g_log.clear(); g_logging = log;
    write_step(d, g_events[e].s, g_events[e].v, fmt);
    g_logging = false;
    return slurp(fn);
}

static std::unordered_set<uint64_t> g_seen_images;
static long long g_images_generated = 0;
static std::string g_img;
static long long crash_images(const std::string& old, const Model& mold, const Model& mnew, int e, bool fmt, const std::string& hist) {
    // validate the mutation log against the crash model, then enumerate all images
    long long images = 0;
    std::string rp = "{\"case\": " + vf::jstr(std::string(fmt ? "F " : "U ") + hist) + "}";
    std::string cur = old; size_t k0 = 0;
    std::vector<std::string> img;                      // distinct consecutive images
    auto check_image = [&](const std::string& im, const std::string& where) {
        // identical images are checked once, by the shard owning their hash (the verdict
        // depends only on the steps contained in the image, all of which are in mold/mnew)
        const uint64_t hsh = vf::fnv(im);
        ++g_images_generated;
        if (!R->mine(hsh >> 8) || !g_seen_images.insert(hsh).second) return;
        ++images; R->evaluations++;
        R->observe(hsh);
        std::string fn = g_img + "/CASE.UNRST";
        spit(fn, im);
        std::string c = read_check(fn, {mold, mnew}, false);
        if (!c.empty()) R->violation("C08:crash:" + c.substr(0, c.find(" of step") == std::string::npos ? 24 : c.find(" of step")), "crash image (" + where + ", " + std::to_string(im.size()) + " bytes) of history [" + hist + "]: " + c, rp);
    };
    if (!g_log.empty() && g_log[0].kind == 'T') {
        if ((size_t)g_log[0].off > cur.size()) R->violation("C08:log:truncate-grows", "truncate to " + std::to_string(g_log[0].off) + " beyond file size in [" + hist + "]", rp);
        cur.resize(g_log[0].off); k0 = 1;
        check_image(cur, "after truncate");
    }
    for (size_t k = k0; k < g_log.size(); ++k) {
        const Op& op = g_log[k];
        if (op.kind != 'W') { R->violation(std::string("C08:log:unexpected-op-") + op.kind, std::string("mutation '") + op.kind + "' outside truncate-then-append in [" + hist + "]", rp); return images; }
        if ((size_t)op.off != cur.size()) { R->violation("C08:log:non-append-write", "write at offset " + std::to_string(op.off) + " != end of file " + std::to_string(cur.size()) + " in [" + hist + "]", rp); return images; }
        for (size_t b = 1; b <= op.data.size(); ++b) {
            // skip the final full image (it is the successor state, checked strictly elsewhere)
            if (k + 1 == g_log.size() && b == op.data.size()) break;
            check_image(cur + op.data.substr(0, b), "write " + std::to_string(k) + " byte " + std::to_string(b));
        }
        cur += op.data;
    }
    return images;
}

int main(int argc, char** argv) {
    vf::Run run("C08", argc, argv); R = &run;
    const char* sc = std::getenv("VERIF_SCRATCH");
    g_dir = std::string(sc ? sc : "/tmp") + "/C08." + std::to_string(getpid());
    g_img = fs::exists("/dev/shm") ? "/dev/shm/verif-C08." + std::to_string(getpid()) : g_dir + "/img";
    fs::create_directories(g_img);
    const int N = run.thorough() ? 4 : 3;
    const int depth = run.thorough() ? 6 : 5;
    g_order_depth = run.thorough() ? 3 : 2;
    for (int s = 0; s <= N; ++s) for (int v = 0; v < 2; ++v) g_events.push_back({s, v});
    run.rule = "BFS over write(step,version) events, steps 0.." + std::to_string(N) + " x {A,B}, depth " + std::to_string(depth) + ", state key = file bytes (formatted and unformatted); per state: file == fresh file of surviving steps, ERst read-back, and every sequence of <= " + std::to_string(run.thorough() ? 3 : 2) + " queries on one ERst object followed by a read of all arrays of all steps; per unformatted transition: syscall log is truncate-then-append and every byte-prefix crash image is read with ERst";
    run.assumptions = {"crash model: a crash leaves a prefix of the logged truncate/append byte sequence (validated against the interposed libc calls on every transition); no block reordering", "payload arrays INTEHEAD/DATA/BIG/ZWEL whose lengths depend on (step, version)"};

    std::string edges_file; bool edges_fmt = false;
    for (int i = 1; i < argc; ++i) { if (std::string(argv[i]) == "--edges") edges_file = argv[i + 1]; if (std::string(argv[i]) == "--edges-fmt") edges_fmt = true; }

    if (!edges_file.empty()) {
        // model tier: each line "s1v1 s2v2 ... | s v | t1w1 t2w2 ..."  (source model state | action | target model state)
        std::ifstream in(edges_file); std::string line; long long n = 0;
        while (std::getline(in, line)) {
            if (!run.mine()) continue;
            std::istringstream ss(line); std::string tok; Model src, dst; int es = -1, ev = -1; int sec = 0;
            while (ss >> tok) { if (tok == "|") { ++sec; continue; } int s = std::atoi(tok.c_str()); int v = tok.back() == 'B'; if (sec == 0) src.push_back({s, v}); else if (sec == 1) { es = s; ev = v; } else dst.push_back({s, v}); }
            for (bool fmt : {false, true}) {
                if (fmt && !edges_fmt) continue;
                // implementation twin of src: write the surviving steps in order (a path of real operations reaching the state)
                std::string d = g_dir + "/edge"; fs::remove_all(d); fs::create_directories(d);
                for (auto& [s, v] : src) write_step(d, s, v, fmt);
                write_step(d, es, ev, fmt);
                std::string got = slurp(fname(d, fmt));
                run.evaluations++; run.traces_validated++; ++n;
                if (got != fresh_bytes(dst, fmt)) run.violation(std::string("C08:tla-edge:") + (fmt ? "fmt" : "bin"), "TLC edge [" + line + "]: implementation state after the action differs from the model's target state", "{\"case\": " + vf::jstr(line) + "}");
                std::string c = read_check(fname(d, fmt), {dst}, true);
                if (!c.empty()) run.violation(std::string("C08:tla-edge-read:") + (fmt ? "fmt" : "bin"), "TLC edge [" + line + "]: " + c, "{\"case\": " + vf::jstr(line) + "}");
                run.observe(vf::fnv(got));
            }
        }
        if (run.shard == 0) run.sample_str("edge: " + line);
        fs::remove_all(g_dir); fs::remove_all(g_img);
        return run.finish();
    }

    if (!run.replay_path.empty()) {
        // replay one history: "U 0A 0B 1A " -> run it from scratch, all oracles, crash images of every transition
        std::istringstream ss(run.replay_path); std::string tok; ss >> tok; bool fmt = tok == "F";
        std::string bytes; Model model; std::vector<int> hist;
        while (ss >> tok) {
            int s = std::atoi(tok.c_str()), v = tok.back() == 'B'; int e = s * 2 + v;
            if (e < 0 || e >= (int)g_events.size()) continue;
            Model m2 = model; model_write(m2, s, v); hist.push_back(e);
            std::string hs = hist_str(hist); std::string rp = "{\"case\": " + vf::jstr(run.replay_path) + "}";
            std::string nb = apply(bytes, hist.size() > 1, e, fmt, !fmt);
            run.evaluations++;
            const std::string tag = std::string("C08:") + (fmt ? "fmt" : "bin");
            if (nb != fresh_bytes(m2, fmt)) { bool rewind = !model.empty() && model.back().first >= s; run.violation(tag + ":file-ne-fresh:" + (rewind ? "rewind" : "append"), "after history [" + hs + "] the file differs from a fresh file of the surviving steps [" + mstr(m2) + "]", rp); }
            { Model keep = m2; keep.pop_back(); const std::string& kb = fresh_bytes(keep, fmt); if (nb.compare(0, kb.size(), kb) != 0 || bytes.compare(0, kb.size(), kb) != 0) run.violation(tag + ":prefix-not-preserved", "steps smaller than the written one are not preserved byte for byte after [" + hs + "]", rp); }
            std::string c = read_check(fname(g_dir + "/work", fmt), {m2}, true);
            if (!c.empty()) run.violation(tag + ":readback", "after history [" + hs + "]: " + c, rp);
            if (!fmt) crash_images(bytes, model, m2, e, fmt, hs);
            bytes = nb; model = m2;
        }
        fs::remove_all(g_dir); fs::remove_all(g_img);
        return run.finish();
    }

    // BFS per format.  Sharding: BFS itself is run by every shard (cheap); the crash enumeration of a transition is sharded.
    for (bool fmt : {false, true}) {
        std::map<std::string, std::pair<std::vector<int>, Model>> states;     // bytes -> (history, model)
        std::deque<std::string> frontier;
        states[""] = {{}, {}}; frontier.push_back("");
        uint64_t trans = 0, nstates = 1, maxd = 0;
        while (!frontier.empty()) {
            std::string bytes = frontier.front(); frontier.pop_front();
            auto [hist, model] = states[bytes];
            if ((int)hist.size() >= depth) continue;
            for (int e = 0; e < (int)g_events.size(); ++e) {
                if (run.counters["violations_total"] > 40) { frontier.clear(); run.exhaustive = false; run.cap_note = "stopped after >40 violations; "; break; }
                std::vector<int> h2 = hist; h2.push_back(e);
                Model m2 = model; model_write(m2, g_events[e].s, g_events[e].v);
                const std::string hs = hist_str(h2);
                run.current(std::string(fmt ? "F " : "U ") + hs);
                bool do_crash = !fmt;
                std::string nb = apply(bytes, !hist.empty(), e, fmt, do_crash);
                ++trans;
                std::string rp = "{\"case\": " + vf::jstr(std::string(fmt ? "F " : "U ") + hs) + "}";
                const std::string tag = std::string("C08:") + (fmt ? "fmt" : "bin");
                // step relation + invariant
                const std::string& fr = fresh_bytes(m2, fmt);
                if (nb != fr) {
                    size_t p = 0; while (p < nb.size() && p < fr.size() && nb[p] == fr[p]) ++p;
                    bool rewind = !model.empty() && model.back().first >= g_events[e].s;
                    run.violation(tag + ":file-ne-fresh:" + (rewind ? "rewind" : "append"), "after history [" + hs + "] the file (" + std::to_string(nb.size()) + " bytes) differs from a fresh file of the surviving steps [" + mstr(m2) + "] (" + std::to_string(fr.size()) + " bytes) at byte " + std::to_string(p), rp);
                }
                // smaller steps preserved byte for byte
                { Model keep = m2; keep.pop_back(); const std::string& kb = fresh_bytes(keep, fmt); if (nb.compare(0, kb.size(), kb) != 0 || bytes.compare(0, kb.size(), kb) != 0) run.violation(tag + ":prefix-not-preserved", "steps smaller than the written one are not preserved byte for byte after [" + hs + "]", rp); }
                if (run.shard == 0 || do_crash) {
                    std::string d = g_dir + "/work";
                    std::string c = read_check(fname(d, fmt), {m2}, true);
                    if (!c.empty()) run.violation(tag + ":readback", "after history [" + hs + "]: " + c, rp);
                }
                if (do_crash) {
                    long long n = crash_images(bytes, model, m2, e, fmt, hs);
                    run.count("crash_images", n);
                    run.count("transitions_crash_enumerated");
                }
                if (!states.count(nb) && (int)(nstates % run.nshards) == run.shard) order_check(fname(g_dir + "/work", fmt), m2, tag, hs, rp);
                if (!states.count(nb)) { states[nb] = {h2, m2}; frontier.push_back(nb); ++nstates; maxd = std::max<uint64_t>(maxd, h2.size()); if (run.shard == 0 && run.samples.size() < 4 && h2.size() >= 3) run.sample_str(std::string(fmt ? "fmt " : "bin ") + "history [" + hs + "] -> surviving [" + mstr(m2) + "] file " + std::to_string(nb.size()) + " bytes"); }
                if (run.shard == 0) run.observe(vf::fnv(nb));
            }
        }
        if (run.shard == 0) { run.states += nstates; run.transitions += trans; run.traces_validated += trans; run.evaluations += trans; run.count(fmt ? "states_fmt" : "states_bin", nstates); run.count("max_depth", 0); run.counters["max_depth"] = std::max<long long>(run.counters["max_depth"], maxd); run.count("frontier_left", 0); }
    }
    if (run.shard == 0) run.count("crash_images_generated_incl_duplicates", g_images_generated);
    fs::remove_all(g_dir); fs::remove_all(g_img);
    return run.finish();
}
