// C16 variant TU: dynamically sized Evaluation<double, DynamicSize, 8>
// (opm/material/densead/DynamicEvaluation.hpp, FastSmallVector storage:
// n+1 <= 8 values live in the inline buffer, larger ones on the heap).
#include "C16_impl.hpp"
namespace c16 {
void reg_dynamic(std::vector<Variant>& v, const std::vector<int>& sizes) {
    using E = Opm::DenseAd::Evaluation<double, Opm::DenseAd::DynamicSize, 8>;
    for (int n : sizes) v.push_back(Impl<E>::make("dynamic" + std::to_string(n), "dynamic", n));
}
}
