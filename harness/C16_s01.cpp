// C16 variant TU: unrolled specialisation Evaluation<double,1> (opm/material/densead/Evaluation1.hpp)
#include "C16_impl.hpp"
C16_STATIC_TU(1, "static")
