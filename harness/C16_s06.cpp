// C16 variant TU: unrolled specialisation Evaluation<double,6> (opm/material/densead/Evaluation6.hpp)
#include "C16_impl.hpp"
C16_STATIC_TU(6, "static")
