// C16 variant TU: unrolled specialisation Evaluation<double,4> (opm/material/densead/Evaluation4.hpp)
#include "C16_impl.hpp"
C16_STATIC_TU(4, "static")
