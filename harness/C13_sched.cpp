// C13-d (E4): controlled-scheduler exploration of the only multi-threaded code of the library,
// the OpenMP loop of EclipseGrid::activeVolume().  Two OpenMP threads, each owning a static
// chunk of cells; guarded scheduling points (hooks/0001, OPM_COMMON_VERIF) at the start of an
// iteration, after the cell corners have been fetched and at the end of the iteration.  A
// cooperative scheduler lets exactly one thread run between points; every interleaving with at
// most P pre-emptions is executed and the resulting volumes must be bitwise equal to the
// sequential result.  Deterministic: same choice trail => same execution.
#include "vf.hpp"
#include <opm/common/OpmLog/OpmLog.hpp>
#include <opm/input/eclipse/Deck/Deck.hpp>
#include <opm/input/eclipse/EclipseState/Grid/EclipseGrid.hpp>
#include <opm/input/eclipse/Parser/Parser.hpp>
#include <condition_variable>
#include <mutex>
#include <omp.h>

namespace sched {
constexpr int NT = 2;
std::mutex mu; std::condition_variable cv;
bool active = false;                 // scheduler engaged?
int turn = -1;                       // thread allowed to run
bool waiting[NT], done[NT];
int iterations_left[NT];
int last_running = -1;
vf::Chooser* chooser = nullptr;
std::string trace;                   // "t<id>@<point>" sequence of this execution
long hook_calls = 0;

// decide who runs next; called with the lock held when every live thread is waiting
void decide() {
    std::vector<int> enabled;
    if (last_running >= 0 && waiting[last_running]) enabled.push_back(last_running);     // canonical order: running thread first
    for (int t = 0; t < NT; ++t) if (waiting[t] && t != last_running) enabled.push_back(t);
    if (enabled.empty()) { turn = -1; return; }
    int c;
    if (last_running >= 0 && waiting[last_running]) c = chooser->dev((int)enabled.size());   // switching away from a runnable thread = pre-emption
    else c = chooser->pick((int)enabled.size());
    turn = enabled[c]; last_running = turn; waiting[turn] = false;
    trace += "t" + std::to_string(turn) + " ";
    cv.notify_all();
}
}

extern "C" void opm_common_verif_point(int point) {
    using namespace sched;
    if (!active) return;
    const int tid = omp_get_thread_num();
    std::unique_lock<std::mutex> lk(mu);
    ++hook_calls;
    if (point == 2) {                                  // end of an iteration
        if (--iterations_left[tid] == 0) {             // the thread leaves the loop: never waits again
            done[tid] = true;
            if (turn == tid) turn = -1;
            bool all = true; for (int t = 0; t < NT; ++t) if (!done[t] && !waiting[t]) all = false;
            if (all) decide();
            return;
        }
    }
    waiting[tid] = true;
    if (turn == tid) turn = -1;
    bool all = true; for (int t = 0; t < NT; ++t) if (!done[t] && !waiting[t]) all = false;
    if (all) decide();
    if (!cv.wait_for(lk, std::chrono::seconds(30), [&] { return turn == tid; })) { std::fprintf(stderr, "C13_sched: scheduler deadlock (thread %d waits at point %d)\n", tid, point); std::abort(); }
}

using namespace Opm;

static std::string grid_deck(int variant) {
    // 2 x 2 x 1 grids (4 active cells -> static chunks {0,1} / {2,3}); variant selects geometry
    std::string s = "RUNSPEC\nDIMENS\n 2 2 1 /\nGRID\n";
    if (variant == 0) s += "DX\n 100 150 100 150 /\nDY\n 80 80 120 120 /\nDZ\n 10 12 14 16 /\nTOPS\n 2000 2001 2002 2003 /\n";
    else if (variant == 1) s += "DXV\n 100 250 /\nDYV\n 50 75 /\nDZV\n 7 /\nTOPS\n 4*1000 /\n";
    else s += "COORD\n 0 0 0 10 5 100  100 0 0 110 5 100  200 0 0 210 5 100\n 0 100 0 10 105 100  100 100 0 110 105 100  200 100 0 210 105 100\n 0 200 0 10 205 100  100 200 0 110 205 100  200 200 0 210 205 100 /\nZCORN\n 10 11 11 12  10 11 11 12  11 12 12 13  11 12 12 13\n 20 22 22 24  20 22 22 24  22 24 24 26  22 24 24 26 /\n";
    return s + "PORO\n 4*0.2 /\n";
}

int main(int argc, char** argv) {
    vf::Run run("C13", argc, argv);
    OpmLog::removeAllBackends();
    Parser parser;
    const int bound = run.thorough() ? 3 : 2;
    run.rule = "E4: 2 OpenMP threads x 2 cells each in EclipseGrid::activeVolume(), 3 scheduling points per iteration (iteration start / after getCellCorners / iteration end), cooperative scheduler, every interleaving with <= " + std::to_string(bound) + " pre-emptions on 3 grid geometries; oracle: volumes bitwise equal to the sequential (1 thread, scheduler off) result; distinct = distinct schedules executed";
    run.assumptions = {"scheduling points only where hooks/0001 places them; a race between two points on data not touched at a point boundary is serialised by the scheduler (free-running cross-thread-count differential of C13_grid covers that side)", "libgomp is not TSan-instrumented here, so no free-running race detector pass"};
    if (run.shard != 0) return run.finish();        // tiny space: one shard does it all
    bool hooks_present = false;
    for (int variant = 0; variant < 3; ++variant) {
        auto deck = parser.parseString(grid_deck(variant));
        EclipseGrid base(deck);
        // sequential reference
        omp_set_num_threads(1); sched::active = false;
        std::vector<double> ref; { EclipseGrid g(base); ref = g.activeVolume(); }
        if (ref.size() != 4) { run.violation("C13:sched:harness", "expected 4 active cells"); continue; }
        omp_set_num_threads(sched::NT);
        uint64_t execs = vf::explore([&](vf::Chooser& c) {
            using namespace sched;
            EclipseGrid g(base);
            { std::lock_guard<std::mutex> lk(mu); chooser = &c; trace.clear(); turn = -1; last_running = -1; for (int t = 0; t < NT; ++t) { waiting[t] = false; done[t] = false; iterations_left[t] = 2; } hook_calls = 0; active = true; }
            const std::vector<double>& v = g.activeVolume();
            active = false;
            if (hook_calls > 0) hooks_present = true;
            run.evaluations++; run.transitions += c.trail.size();
            run.observe(vf::fnv(trace + std::to_string(variant)));
            bool same = v.size() == ref.size(); for (size_t i = 0; same && i < v.size(); ++i) same = vf::dbits(v[i]) == vf::dbits(ref[i]);
            if (!same) {
                std::string got; for (double d : v) got += vf::fmt17(d) + " "; std::string want; for (double d : ref) want += vf::fmt17(d) + " ";
                run.violation("C13:sched:volume-depends-on-interleaving", "activeVolume() under schedule [" + trace + "] (grid variant " + std::to_string(variant) + ") = [" + got + "] differs from the sequential result [" + want + "]", "{\"case\": " + vf::jstr(std::to_string(variant) + " " + c.trail_str()) + "}");
            }
            if (run.samples.size() < 3 && c.used == 2) run.sample_str("grid " + std::to_string(variant) + " schedule " + trace);
        }, bound);
        run.count("schedules_variant_" + std::to_string(variant), execs);
        run.states += execs;
    }
    if (!hooks_present) { run.exhaustive = false; run.cap_note = "scheduling hooks not compiled in (OPM_COMMON_VERIF hook commit missing): nothing explored; "; run.count("hooks_missing"); }
    run.traces_validated = run.evaluations;
    return run.finish();
}
