// C16 variant TU: unrolled specialisation Evaluation<double,7> (opm/material/densead/Evaluation7.hpp)
#include "C16_impl.hpp"
C16_STATIC_TU(7, "static")
