// C16 variant TU: unrolled specialisation Evaluation<double,9> (opm/material/densead/Evaluation9.hpp)
#include "C16_impl.hpp"
C16_STATIC_TU(9, "static")
