// C16 variant TU: generic static template Evaluation<double,15> (opm/material/densead/Evaluation.hpp)
#include "C16_impl.hpp"
C16_STATIC_TU(15, "generic")
