// C17 (a) — UDQ expression semantics.
//
// Bounded-exhaustive enumeration (E1, product form) of UDQ DEFINE expressions
// on the real tokenizer/parser/evaluator:
//     string tokens -> UDQDefine(params, "WUX"|"GUX"|"FUX", 0, loc, tokens) -> .eval(UDQContext)
// judged element by element (defined flag + value, 1e-12 rel) by a reference
// written from the property statement only: precedence-climbing parser with the
// statement's rank list (parentheses/functions, ^, * /, + -, comparisons, set-union
// operators; left-to-right for equal-rank * / + -) and an element-wise
// evaluator with scalar broadcast and undefined propagation, reductions and
// elemental functions by their definitions.
//
// Expressions for which the statement fixes no meaning are left out and
// counted (two ^ / two comparisons / different U-operators on one nesting
// level, unary minus directly before ^, division by zero, negative base,
// LN/LOG/AVEG/AVEH outside their domain, NINT and SORT ties, comparisons on the
// tolerance edge, cardinality-dependent reductions of a scalar, non-finite
// intermediate values).
//
// A disagreement is attributed to a defect class by locating the smallest
// sub-expression on which real code and reference disagree while all its
// children agree, and re-evaluating it fully parenthesised: agreement then
// means "precedence/grouping" (key C17:prec:<inner>-before-<outer>), otherwise
// the operator/function semantics (C17:cmp:…, C17:pow:…, C17:uop:…, C17:func:…).
#include "vf.hpp"

#include <opm/common/OpmLog/KeywordLocation.hpp>
#include <opm/common/utility/TimeService.hpp>
#include <opm/input/eclipse/Parser/ErrorGuard.hpp>
#include <opm/input/eclipse/Parser/ParseContext.hpp>
#include <opm/input/eclipse/Schedule/SummaryState.hpp>
#include <opm/input/eclipse/Schedule/UDQ/UDQContext.hpp>
#include <opm/input/eclipse/Schedule/UDQ/UDQDefine.hpp>
#include <opm/input/eclipse/Schedule/UDQ/UDQFunctionTable.hpp>
#include <opm/input/eclipse/Schedule/UDQ/UDQParams.hpp>
#include <opm/input/eclipse/Schedule/UDQ/UDQSet.hpp>
#include <opm/input/eclipse/Schedule/UDQ/UDQState.hpp>
#include <opm/input/eclipse/Schedule/UDQ/UDT.hpp>
#include <opm/input/eclipse/Schedule/Well/NameOrder.hpp>
#include <opm/input/eclipse/Schedule/Well/WellMatcher.hpp>

#include <cmath>
#include <fnmatch.h>
#include <optional>

using OD = std::optional<double>;
using Toks = std::vector<std::string>;
static vf::Run* R;

// ------------------------------------------------------------------ universe
static const std::vector<std::string> WELLS{"P1", "P2", "P3", "I1"};
static const std::vector<std::string> GROUPS{"G1", "G2", "G3"};
static const std::map<std::string, std::vector<OD>> WV{
    {"WOPR", {4.0, std::nullopt, 1.5, 6.0}},
    {"WWPR", {0.25, 8.0, std::nullopt, -3.0}}};
static const std::map<std::string, std::vector<OD>> GV{
    {"GOPR", {2.5, std::nullopt, 7.0}},
    {"GWPR", {1.0, 3.0, std::nullopt}}};
static const std::map<std::string, double> FV{{"FOPR", 5.0}};
static double CMP_EPS = 1e-4;

static const std::vector<std::string> OPS{"+", "-", "*", "/", "^", "<", "<=", ">", ">=", "==", "!=", "UADD", "UMUL", "UMIN", "UMAX"};
static const std::vector<std::string> FUNCS{"SUM", "AVEA", "AVEG", "AVEH", "MAX", "MIN", "NORM1", "NORM2", "NORMI", "PROD",
                                            "ABS", "DEF", "EXP", "IDV", "LN", "LOG", "NINT", "SORTA", "SORTD", "UNDEF",
                                            "RANDN", "RANDU", "RRNDN", "RRNDU"};
static int op_rank(const std::string& o) {
    if (o == "^") return 4;
    if (o == "*" || o == "/") return 3;
    if (o == "+" || o == "-") return 2;
    if (o == "<" || o == "<=" || o == ">" || o == ">=" || o == "==" || o == "!=") return 1;
    if (o == "UADD" || o == "UMUL" || o == "UMIN" || o == "UMAX") return 0;
    return -1;
}
static const char* rank_cls(int r) { static const char* n[] = {"uop", "cmp", "add", "mul", "pow"}; return n[r]; }
static bool is_func(const std::string& s) { return std::find(FUNCS.begin(), FUNCS.end(), s) != FUNCS.end(); }
static bool is_number(const std::string& s, double& v) { char* e = nullptr; v = std::strtod(s.c_str(), &e); return !s.empty() && e && *e == 0 && (std::isdigit((unsigned char)s[0]) || s[0] == '.'); }

// ------------------------------------------------------- reference: values
enum Shape { SC, WS, GS };
struct Val {
    Shape shape = SC;
    std::vector<OD> e;
    bool inexact = false;   // went through a reduction / transcendental: equality and ties are not decided on it
    bool random = false;    // values unknown (RANDN...): only definedness is compared
};
struct Unspec { std::string why; };
static size_t shape_size(Shape s) { return s == SC ? 1 : s == WS ? WELLS.size() : GROUPS.size(); }
static double fin(double v) { if (!std::isfinite(v)) throw Unspec{"non-finite"}; return v; }

template <class F> static Val zip(const Val& a, const Val& b, F f) {
    if (a.shape != SC && b.shape != SC && a.shape != b.shape) throw std::logic_error("harness: well and group sets mixed");
    Val r; r.shape = a.shape != SC ? a.shape : b.shape; r.inexact = a.inexact || b.inexact; r.random = a.random || b.random;
    const size_t n = shape_size(r.shape);
    for (size_t i = 0; i < n; ++i) r.e.push_back(f(a.shape == SC ? a.e[0] : a.e[i], b.shape == SC ? b.e[0] : b.e[i]));
    return r;
}
template <class F> static Val map1(const Val& a, F f) { Val r = a; for (auto& x : r.e) x = f(x); return r; }

static OD cmp_elem(const std::string& op, const OD& l, const OD& r, bool inexact, bool random) {
    if (!l || !r) return std::nullopt;
    if (random) return 0.0;
    const double d = *l - *r, m = std::max(std::fabs(*l), std::fabs(*r));
    bool eq = (d == 0);
    if (inexact && std::fabs(d) <= 1e-6 * m) throw Unspec{"cmp-on-inexact-near-equal"};
    if (!eq && std::fabs(d) <= 100 * CMP_EPS * m) throw Unspec{"cmp-tolerance-edge"};
    bool res;
    if (op == "==") res = eq; else if (op == "!=") res = !eq;
    else if (op == "<") res = !eq && d < 0; else if (op == ">") res = !eq && d > 0;
    else if (op == "<=") res = eq || d < 0; else res = eq || d > 0;
    return res ? 1.0 : 0.0;
}

static Val apply_bin(const std::string& op, const Val& a, const Val& b) {
    const int rk = op_rank(op);
    if (rk == 0) return zip(a, b, [&](const OD& x, const OD& y) -> OD {
        if (x && y) { if (op == "UADD") return fin(*x + *y); if (op == "UMUL") return fin(*x * *y); if (op == "UMIN") return std::min(*x, *y); return std::max(*x, *y); }
        if (x) return x; if (y) return y; return std::nullopt; });
    if (rk == 1) {
        if (a.random || b.random) throw Unspec{"comparison-with-random-operand"};
        const bool ix = a.inexact || b.inexact; return zip(a, b, [&](const OD& x, const OD& y) { return cmp_elem(op, x, y, ix, false); });
    }
    if (op == "^" && a.random) throw Unspec{"random-base"};
    if (op == "/" && b.random) throw Unspec{"random-divisor"};
    // a value that went through a reduction/transcendental and cancels to (almost) zero has no reliable sign
    if (op == "^" && a.inexact) for (auto& x : a.e) if (x && std::fabs(*x) < 1e-9) throw Unspec{"inexact-near-zero-base"};
    if (op == "/" && b.inexact) for (auto& y : b.e) if (y && std::fabs(*y) < 1e-9) throw Unspec{"inexact-near-zero-divisor"};
    return zip(a, b, [&](const OD& x, const OD& y) -> OD {
        if (!x || !y) return std::nullopt;
        if (op == "+") return fin(*x + *y);
        if (op == "-") return fin(*x - *y);
        if (op == "*") return fin(*x * *y);
        if (op == "/") { if (*y == 0) throw Unspec{"division-by-zero"}; return fin(*x / *y); }
        if (*x < 0) throw Unspec{"negative-base"};
        if (*x == 0 && *y <= 0) throw Unspec{"zero-base-nonpositive-exponent"};
        return fin(std::pow(*x, *y)); });
}

static Val apply_fun(const std::string& f, const Val& a) {
    auto defined = [&]() { std::vector<double> d; for (auto& x : a.e) if (x) d.push_back(*x); return d; };
    auto scalar = [&](OD v) { Val r; r.shape = SC; r.e = {v}; r.inexact = true; r.random = false; return r; };
    const bool reduction = (f == "SUM" || f == "AVEA" || f == "AVEG" || f == "AVEH" || f == "MAX" || f == "MIN" || f == "NORM1" || f == "NORM2" || f == "NORMI" || f == "PROD");
    if (reduction) {
        if (a.random) throw Unspec{"reduction-of-random"};
        if (a.shape == SC && (f == "SUM" || f == "PROD" || f == "NORM1" || f == "NORM2")) throw Unspec{"cardinality-dependent-reduction-of-scalar"};
        auto d = defined();
        if (d.empty()) return scalar(std::nullopt);
        const double n = d.size();
        double v = 0;
        if (f == "SUM") { for (double x : d) v += x; }
        else if (f == "AVEA") { for (double x : d) v += x; v /= n; }
        else if (f == "AVEG") { double p = 1; for (double x : d) { if (x <= 0) throw Unspec{"AVEG-nonpositive"}; p *= x; } v = std::pow(p, 1.0 / n); }
        else if (f == "AVEH") { double s = 0; for (double x : d) { if (x <= 0) throw Unspec{"AVEH-nonpositive"}; s += 1.0 / x; } v = n / s; }
        else if (f == "MAX") { v = d[0]; for (double x : d) v = std::max(v, x); }
        else if (f == "MIN") { v = d[0]; for (double x : d) v = std::min(v, x); }
        else if (f == "NORM1") { for (double x : d) v += std::fabs(x); }
        else if (f == "NORM2") { for (double x : d) v += x * x; v = std::sqrt(v); }
        else if (f == "NORMI") { for (double x : d) v = std::max(v, std::fabs(x)); }
        else if (f == "PROD") { v = 1; for (double x : d) v *= x; }
        return scalar(fin(v));
    }
    if (f == "DEF") { Val r = map1(a, [](const OD& x) -> OD { return x ? OD(1.0) : std::nullopt; }); r.random = false; r.inexact = false; return r; }
    if (f == "UNDEF") { Val r = map1(a, [](const OD& x) -> OD { return x ? std::nullopt : OD(1.0); }); r.random = false; r.inexact = false; return r; }
    if (f == "IDV") { Val r = map1(a, [](const OD& x) -> OD { return x ? 1.0 : 0.0; }); r.random = false; r.inexact = false; return r; }
    if (f == "RANDN" || f == "RANDU" || f == "RRNDN" || f == "RRNDU") { Val r = map1(a, [](const OD& x) -> OD { return x ? OD(0.0) : std::nullopt; }); r.random = true; return r; }
    if (a.random) throw Unspec{"function-of-random"};
    if (f == "ABS") return map1(a, [](const OD& x) -> OD { return x ? OD(std::fabs(*x)) : std::nullopt; });
    if (f == "EXP") { Val r = map1(a, [](const OD& x) -> OD { return x ? OD(fin(std::exp(*x))) : std::nullopt; }); r.inexact = true; return r; }
    if (f == "LN") { Val r = map1(a, [](const OD& x) -> OD { if (!x) return std::nullopt; if (*x <= 0) throw Unspec{"LN-nonpositive"}; return std::log(*x); }); r.inexact = true; return r; }
    if (f == "LOG") { Val r = map1(a, [](const OD& x) -> OD { if (!x) return std::nullopt; if (*x <= 0) throw Unspec{"LOG-nonpositive"}; return std::log10(*x); }); r.inexact = true; return r; }
    if (f == "NINT") {
        const bool ix = a.inexact;
        return map1(a, [ix](const OD& x) -> OD {
            if (!x) return std::nullopt;
            const double fl = std::floor(*x), fr = *x - fl;
            if (fr == 0.5 || (ix && std::fabs(fr - 0.5) < 1e-6)) throw Unspec{"NINT-tie"};
            return fr < 0.5 ? fl : fl + 1.0; });
    }
    if (f == "SORTA" || f == "SORTD") {
        if (a.shape == SC) throw Unspec{"SORT-of-scalar"};
        Val r = a; r.inexact = false;
        for (size_t i = 0; i < a.e.size(); ++i) {
            if (!a.e[i]) continue;
            int before = 0;
            for (size_t j = 0; j < a.e.size(); ++j) {
                if (j == i || !a.e[j]) continue;
                const double d = *a.e[j] - *a.e[i];
                if (d == 0 || (a.inexact && std::fabs(d) <= 1e-6 * std::max(std::fabs(*a.e[i]), std::fabs(*a.e[j])))) throw Unspec{"SORT-tie"};
                if (f == "SORTA" ? d < 0 : d > 0) ++before;
            }
            r.e[i] = 1.0 + before;
        }
        return r;
    }
    throw std::logic_error("harness: unknown function " + f);
}

static Val var_value(const std::string& name, bool hassel, const std::string& sel) {
    Val r;
    if (auto f = FV.find(name); f != FV.end()) { r.shape = SC; r.e = {f->second}; return r; }
    const bool well = name[0] == 'W';
    const auto& tab = well ? WV : GV; const auto& names = well ? WELLS : GROUPS;
    auto it = tab.find(name);
    if (it == tab.end()) throw std::logic_error("harness: unknown variable " + name);
    if (!hassel) { r.shape = well ? WS : GS; r.e = it->second; return r; }
    if (sel.find('*') == std::string::npos) {
        r.shape = SC; r.e = {std::nullopt};
        for (size_t i = 0; i < names.size(); ++i) if (names[i] == sel) r.e[0] = it->second[i];
        return r;
    }
    r.shape = well ? WS : GS; r.e.assign(names.size(), std::nullopt);
    for (size_t i = 0; i < names.size(); ++i) if (fnmatch(sel.c_str(), names[i].c_str(), 0) == 0) r.e[i] = it->second[i];
    return r;
}

// ------------------------------------------------------- reference: parser
struct Node { char k; std::string s; double num = 0; std::string sel; bool hassel = false; int l = -1, r = -1; bool paren = false; int t0 = 0, t1 = 0; };
struct Parser {
    const Toks& t; size_t p = 0; std::vector<Node> n; std::string ambiguous; std::string error;
    explicit Parser(const Toks& tt) : t(tt) {}
    bool end() const { return p >= t.size(); }
    const std::string& cur() const { static const std::string e; return end() ? e : t[p]; }
    void amb(const std::string& w) { if (ambiguous.empty()) ambiguous = w; }
    int mk(Node x) { n.push_back(std::move(x)); return int(n.size()) - 1; }
    int bin(const std::string& op, int l, int r) { Node x; x.k = 'b'; x.s = op; x.l = l; x.r = r; x.t0 = n[l].t0; x.t1 = n[r].t1; return mk(x); }
    int parseU() {
        int a = parseC(); std::string kind;
        while (!end() && op_rank(cur()) == 0) { std::string op = cur(); ++p; if (kind.empty()) kind = op; else if (kind != op) amb("mixed-union-operators"); int b = parseC(); a = bin(op, a, b); }
        return a;
    }
    int parseC() {
        int a = parseA(); int cnt = 0;
        while (!end() && op_rank(cur()) == 1) { std::string op = cur(); ++p; if (++cnt > 1) amb("two-comparisons"); int b = parseA(); a = bin(op, a, b); }
        return a;
    }
    int parseA() {
        int a = parseM();
        while (!end() && op_rank(cur()) == 2) { std::string op = cur(); ++p; int b = parseM(); a = bin(op, a, b); }
        return a;
    }
    int parseM() {
        int a = parseP();
        while (!end() && op_rank(cur()) == 3) { std::string op = cur(); ++p; int b = parseP(); a = bin(op, a, b); }
        return a;
    }
    int parseP() {
        int a = parseAtom(); int cnt = 0;
        while (!end() && op_rank(cur()) == 4) {
            std::string op = cur(); ++p;
            if (++cnt > 1) amb("two-pow");
            if (n[a].k == '-' && !n[a].paren) amb("unary-minus-before-pow");
            int b = parseAtom(); a = bin(op, a, b);
        }
        return a;
    }
    int parseAtom() {
        if (end()) { error = "unexpected end"; Node x; x.k = 'n'; return mk(x); }
        const int t0 = int(p);
        if (cur() == "-") { ++p; int c = parseAtom(); Node x; x.k = '-'; x.l = c; x.t0 = t0; x.t1 = n[c].t1; return mk(x); }
        if (cur() == "(") {
            ++p; int c = parseU();
            if (cur() != ")") error = "expected )"; else ++p;
            n[c].paren = true; n[c].t0 = t0; n[c].t1 = int(p); return c;
        }
        if (is_func(cur())) {
            Node x; x.k = 'f'; x.s = cur(); ++p;
            if (cur() != "(") error = "expected ( after function"; else ++p;
            int c = parseU();
            if (cur() != ")") error = "expected )"; else ++p;
            x.l = c; x.t0 = t0; x.t1 = int(p); return mk(x);
        }
        double v;
        if (is_number(cur(), v)) { Node x; x.k = 'n'; x.num = v; x.s = cur(); ++p; x.t0 = t0; x.t1 = int(p); return mk(x); }
        if (op_rank(cur()) >= 0 || cur() == ")") { error = "unexpected token " + cur(); ++p; Node x; x.k = 'n'; return mk(x); }
        Node x; x.k = 'v'; x.s = cur(); ++p;
        if (!end() && cur() != "(" && cur() != ")" && op_rank(cur()) < 0 && !is_func(cur())) {
            x.hassel = true; x.sel = cur(); ++p;
            if (x.sel.size() >= 2 && x.sel.front() == '\'' && x.sel.back() == '\'') x.sel = x.sel.substr(1, x.sel.size() - 2);
        }
        x.t0 = t0; x.t1 = int(p); return mk(x);
    }
};

static Val ref_eval(const std::vector<Node>& n, int i) {
    const Node& x = n[i];
    switch (x.k) {
    case 'n': { Val r; r.e = {x.num}; return r; }
    case 'v': return var_value(x.s, x.hassel, x.sel);
    case '-': return map1(ref_eval(n, x.l), [](const OD& v) -> OD { return v ? OD(-*v) : std::nullopt; });
    case 'f': return apply_fun(x.s, ref_eval(n, x.l));
    default: { Val a = ref_eval(n, x.l); Val b = ref_eval(n, x.r); return apply_bin(x.s, a, b); }
    }
}

// ------------------------------------------------------------- real code
struct World {
    Opm::UDQParams udqp;
    Opm::UDQFunctionTable udqft;
    Opm::SummaryState st;
    Opm::UDQState udq_state;
    Opm::WellMatcher wm;
    std::unordered_map<std::string, Opm::UDT> tables;
    Opm::UDQContext ctx;
    Opm::KeywordLocation loc;
    Opm::ParseContext parse_ctx;       // default actions: UDQ_PARSE_ERROR / UDQ_TYPE_ERROR throw
    Opm::ErrorGuard errors;
    World()
        : udqft(udqp), st(Opm::TimeService::from_time_t(0), udqp.undefinedValue()), udq_state(udqp.undefinedValue()),
          wm(Opm::NameOrder(WELLS)), ctx(udqft, wm, tables, Opm::UDQContext::MatcherFactories{}, st, udq_state), loc("UDQ", "C17", 1)
    {
        for (auto& [var, vals] : WV) for (size_t i = 0; i < WELLS.size(); ++i) if (vals[i]) st.update_well_var(WELLS[i], var, *vals[i]);
        for (auto& [var, vals] : GV) for (size_t i = 0; i < GROUPS.size(); ++i) if (vals[i]) st.update_group_var(GROUPS[i], var, *vals[i]);
        for (auto& [var, v] : FV) st.update(var, v);
        CMP_EPS = udqp.cmpEpsilon();
    }
};
static World* W;

static void nested_what(const std::exception& e, std::string& out, int depth = 0) {
    if (depth > 4) return;
    try { std::rethrow_if_nested(e); }
    catch (const std::exception& inner) { out = inner.what(); nested_what(inner, out, depth + 1); }
    catch (...) {}
}
struct Real { bool threw = false; std::string what; std::vector<OD> e; std::string shape_err; };
static Real eval_real(char target, const Toks& toks) {
    Real r;
    const std::string kw = std::string(1, target) + "UX";
    try {
        Opm::UDQDefine def(W->udqp, kw, 0, W->loc, toks, W->parse_ctx, W->errors);
        Opm::UDQSet res = def.eval(W->ctx);
        if (target == 'F') {
            if (res.size() != 1) r.shape_err = "field result of size " + std::to_string(res.size());
            else r.e = {res[0].value()};
        } else {
            const auto& names = target == 'W' ? WELLS : GROUPS;
            if (res.size() != names.size()) r.shape_err = "set result of size " + std::to_string(res.size());
            for (auto& nm : names) { if (!res.has(nm)) { r.shape_err = "no element " + nm; break; } r.e.push_back(res[nm].value()); }
        }
    } catch (const std::exception& e) {
        r.threw = true; r.what = e.what(); nested_what(e, r.what);
    }
    return r;
}

static std::vector<OD> expected(char target, const Val& v) {
    const size_t n = target == 'F' ? 1 : target == 'W' ? WELLS.size() : GROUPS.size();
    if (v.shape == SC) return std::vector<OD>(n, v.e[0]);
    if ((target == 'W' && v.shape == WS) || (target == 'G' && v.shape == GS)) return v.e;
    throw std::logic_error("harness: expression type does not fit target");
}
static bool close(double a, double b) { return std::fabs(a - b) <= 1e-12 * std::max(std::fabs(a), std::fabs(b)) + 1e-14; }
static bool agree(const Real& r, const std::vector<OD>& ex, bool random, std::vector<size_t>* bad = nullptr) {
    if (r.threw || !r.shape_err.empty() || r.e.size() != ex.size()) return false;
    bool ok = true;
    for (size_t i = 0; i < ex.size(); ++i) {
        bool same = r.e[i].has_value() == ex[i].has_value();
        if (same && ex[i] && !random) same = close(*r.e[i], *ex[i]);
        if (same && ex[i] && random) same = std::isfinite(*r.e[i]);
        if (!same) { ok = false; if (bad) bad->push_back(i); }
    }
    return ok;
}
static std::string show(const std::vector<OD>& v) { std::string s = "["; for (size_t i = 0; i < v.size(); ++i) { if (i) s += ", "; s += v[i] ? vf::fmt17(*v[i]) : "undef"; } return s + "]"; }
static std::string join(const Toks& t, size_t a, size_t b) { std::string s; for (size_t i = a; i < b; ++i) { if (i > a) s += ' '; s += t[i]; } return s; }
static std::string join(const Toks& t) { return join(t, 0, t.size()); }

// ------------------------------------------------------------- diagnosis
static bool all_undef(const Val& v) { for (auto& x : v.e) if (x) return false; return true; }
static char target_for(char target, const Val& v) { return v.shape == WS ? 'W' : v.shape == GS ? 'G' : target; }

// does the real code agree with the reference on this stand-alone (sub-)expression?  memoised: 1 yes, 0 no, 2 unspecified
static std::unordered_map<std::string, int> g_sub_memo;
static int sub_agrees(char tg, const Toks& sub, const std::vector<OD>* ex, bool random) {
    std::string k = std::string(1, tg) + "|" + (ex ? show(*ex) : "") + "|"; for (auto& t : sub) { k += t; k += ' '; }
    auto it = g_sub_memo.find(k);
    if (it != g_sub_memo.end()) return it->second;
    int res = 2;
    if (ex) { Real r = eval_real(tg, sub); res = agree(r, *ex, random) ? 1 : 0; }
    if (g_sub_memo.size() < 200000) g_sub_memo.emplace(std::move(k), res);
    return res;
}

static std::string diagnose(char target, const Toks& toks, const std::vector<Node>& n, int root, std::string& witness, char& wtarget, std::string& wdesc) {
    // smallest disagreeing subtree (nodes are created children-first, so index order is a post-order)
    int T = root;
    for (int i = 0; i < int(n.size()); ++i) {
        if (i == root) continue;
        Toks sub(toks.begin() + n[i].t0, toks.begin() + n[i].t1);
        try {
            Val v = ref_eval(n, i);
            char tg = target_for(target, v);
            std::vector<OD> ex = expected(tg, v);
            if (sub_agrees(tg, sub, &ex, v.random) == 0) { T = i; break; }
        } catch (const Unspec&) {}
    }
    const Node& x = n[T];
    Toks sub(toks.begin() + x.t0, toks.begin() + x.t1);
    witness = join(sub); wtarget = target;
    Val v; try { v = ref_eval(n, T); } catch (const Unspec&) { return "C17:expr:unexplained"; }
    const char tg = target_for(target, v);
    wtarget = tg;
    const std::vector<OD> ex = expected(tg, v);
    Real r = eval_real(tg, sub);
    wdesc = "real = " + (r.threw ? "throws (" + r.what.substr(0, 160) + ")" : !r.shape_err.empty() ? r.shape_err : show(r.e)) + ", statement = " + show(ex);
    const std::string thr = r.threw ? ":throws" : (!r.shape_err.empty() ? ":shape" : ":value");
    if (x.k == 'n') return "C17:operand:number" + thr;
    if (x.k == 'v') return "C17:operand:" + x.s + (x.hassel ? (x.sel.find('*') != std::string::npos ? ":pattern" : ":name") : "") + thr;
    if (x.k == '-') return std::string("C17:neg:") + (v.shape == SC ? "scalar" : "set") + thr;
    if (x.k == 'f') {
        Val a = ref_eval(n, x.l);
        const bool reduction = std::find(FUNCS.begin(), FUNCS.begin() + 10, x.s) != FUNCS.begin() + 10;
        if (reduction && all_undef(a)) return "C17:func:reduction-of-all-undefined";
        return "C17:func:" + x.s;
    }
    // binary node whose operands are individually right: grouping or operator semantics?
    // (1) grouping: parenthesise one unparenthesised inner node of T at a time, innermost first
    {
        std::vector<int> parent(n.size(), -1), stack{T};
        std::vector<int> members;
        while (!stack.empty()) {
            int c = stack.back(); stack.pop_back(); members.push_back(c);
            if (n[c].k == 'f') continue;                          // function arguments are delimited already
            for (int ch : {n[c].l, n[c].r}) if (ch >= 0) { parent[ch] = c; stack.push_back(ch); }
        }
        std::sort(members.begin(), members.end());
        auto cls = [&](int c) -> std::string { const Node& y = n[c]; if (y.k == 'b') return rank_cls(op_rank(y.s)); if (y.k == '-') return "neg"; return "atom"; };
        for (int c : members) {
            if (c == T || n[c].paren || (n[c].k != 'b' && n[c].k != '-')) continue;
            Toks par;
            for (int t = x.t0; t < x.t1; ++t) { if (t == n[c].t0) par.push_back("("); par.push_back(toks[t]); if (t + 1 == n[c].t1) par.push_back(")"); }
            if (sub_agrees(tg, par, &ex, v.random) == 1) return "C17:prec:" + cls(c) + "-before-" + cls(parent[c]);
        }
        Toks par; par.push_back("("); par.insert(par.end(), toks.begin() + n[x.l].t0, toks.begin() + n[x.l].t1); par.push_back(")");
        par.push_back(x.s);
        par.push_back("("); par.insert(par.end(), toks.begin() + n[x.r].t0, toks.begin() + n[x.r].t1); par.push_back(")");
        if (sub_agrees(tg, par, &ex, v.random) == 1) return std::string("C17:prec:grouping:") + rank_cls(op_rank(x.s));
    }
    // (2) operator semantics
    Val a = ref_eval(n, x.l), b = ref_eval(n, x.r);
    std::vector<size_t> bad; agree(r, ex, v.random, &bad);
    auto el = [&](const Val& q, size_t i) { return q.shape == SC ? q.e[0] : q.e[i]; };
    const size_t nel = shape_size(v.shape);
    std::vector<size_t> idx;
    if (r.threw || !r.shape_err.empty() || v.shape == SC) for (size_t i = 0; i < nel; ++i) idx.push_back(i); else idx = bad;
    const int rk = op_rank(x.s);
    const bool undef_scalar = (a.shape == SC && !a.e[0]) || (b.shape == SC && !b.e[0]);
    const bool any_scalar = (a.shape == SC && n[x.l].k != 'n') || (b.shape == SC && n[x.r].k != 'n');
    // a scalar ^ set below T that agreed stand-alone only because all elements coincide still has the wrong (scalar) shape
    // (fallback attribution) a ^ below T whose operands have different sizes in the implementation (literals are
    // full sets for WUX/GUX, FOPR / "WOPR P1" / reductions have size 1) yields a wrongly shaped result even
    // when it agreed stand-alone because all elements coincide
    std::function<bool(int)> impl_full = [&](int c) -> bool {
        const Node& y = n[c];
        if (y.k == 'n') return true;
        if (y.k == 'v') { try { return ref_eval(n, c).shape != SC; } catch (const Unspec&) { return false; } }
        if (y.k == '-') return impl_full(y.l);
        if (y.k == 'f') return std::find(FUNCS.begin(), FUNCS.begin() + 10, y.s) == FUNCS.begin() + 10 && impl_full(y.l);
        return impl_full(y.l) || impl_full(y.r);
    };
    auto unbroadcast_pow_below = [&]() {
        if (tg == 'F' || !(r.threw || !r.shape_err.empty())) return false;   // size-1 world / only for size-mismatch symptoms
        std::vector<int> st{x.l, x.r};
        while (!st.empty()) {
            int c = st.back(); st.pop_back();
            if (c < 0) continue;
            if (n[c].k == 'b' && n[c].s == "^" && impl_full(n[c].l) != impl_full(n[c].r)) return true;
            st.push_back(n[c].l); st.push_back(n[c].r);
        }
        return false;
    };
    if (rk == 0) { if (any_scalar) return "C17:uop:scalar-not-broadcast"; if (unbroadcast_pow_below()) return "C17:pow:scalar-not-broadcast"; return "C17:uop:" + x.s + thr; }
    if (rk == 4) {
        if (!r.threw && r.shape_err.empty()) {
            bool ue = false; for (size_t i : idx) { OD l = el(a, i), rr = el(b, i); if (l && !rr && i < r.e.size() && r.e[i]) ue = true; }
            if (ue) return "C17:pow:undefined-exponent-not-propagated";
        }
        return (any_scalar && tg != 'F') ? "C17:pow:scalar-not-broadcast" : "C17:pow" + thr;
    }
    if (undef_scalar && r.threw) return "C17:undef-scalar-operand:throws";
    if (rk == 1) {
        bool zero = false, neg = false;
        // "zero": the relative difference (l - r) / l is not finite (l == 0 or so tiny that the quotient overflows)
        for (size_t i : idx) { OD l = el(a, i), rr = el(b, i); if (!l || !rr) continue; if (*l != *rr && !std::isfinite((*l - *rr) / *l)) zero = true; if (*l < 0 && *l != *rr) neg = true; }
        if (zero && (r.threw || !neg)) return "C17:cmp:zero-lhs";
        if (neg) return "C17:cmp:neg-lhs:" + x.s;
        if (unbroadcast_pow_below()) return "C17:pow:scalar-not-broadcast";
        return "C17:cmp:" + x.s + thr;
    }
    if (unbroadcast_pow_below()) return "C17:pow:scalar-not-broadcast";
    return "C17:arith:" + x.s + thr;
}

// ------------------------------------------------------------- one case
struct Found { std::string cs, what, witness; size_t ntok = 0; };
static std::map<std::string, Found> g_viol;          // defect key -> shortest witness seen by this shard
static void flush_violations() {
    for (auto& [key, f] : g_viol) R->violation(key, f.what, "{\"case\": " + vf::jstr(f.cs) + ", \"seen_in\": " + vf::jstr(f.witness) + "}");
}
// returns: 0 executed, 1 left out (ambiguous), 2 left out (unspecified value)
static int do_case(char target, const Toks& toks, const char* regime) {
    const std::string cs = std::string(1, target) + " : " + join(toks);
    Parser P(toks);
    int root = P.parseU();
    if (!P.end() && P.error.empty()) P.error = "trailing tokens";
    if (!P.error.empty()) throw std::logic_error("harness generated an ill-formed expression: " + cs + " (" + P.error + ")");
    if (!P.ambiguous.empty()) { R->count(std::string("left_out:") + P.ambiguous); return 1; }
    R->current(cs);
    Val v; bool unspec = false; std::string why;
    try { v = ref_eval(P.n, root); } catch (const Unspec& u) { unspec = true; why = u.why; }
    Real r = eval_real(target, toks);
    R->evaluations++;
    R->count(std::string("cases:") + regime);
    if (unspec) {
        R->count("left_out_value:" + why);
        if (r.threw) R->count("left_out_value:real-code-threw");
        return 2;
    }
    const std::vector<OD> ex = expected(target, v);
    {
        std::string h;
        if (v.random) { for (auto& x : r.e) h += x ? 'd' : 'u'; }     // values are random: observe definedness only
        else h = show(r.e);
        h += r.threw ? "T|" : "|";
        for (auto& nd : P.n) { h += nd.k; if (nd.k == 'b' || nd.k == 'f') h += nd.s; if (nd.paren) h += 'p'; }
        R->observe(h);
    }
    if (R->case_counter % 9973 == 1) R->sample_str(cs + "  =>  " + show(r.e) + (v.random ? "  (random: definedness only)" : ""));
    if (agree(r, ex, v.random)) return 0;
    std::string witness, wdesc; char wtarget = target;
    std::string key = diagnose(target, toks, P.n, root, witness, wtarget, wdesc);
    // the stand-alone smallest disagreeing sub-expression is itself the (smaller) reproducer
    std::string what = "UDQ DEFINE " + std::string(1, wtarget) + "UX " + witness + " : " + wdesc;
    if (witness != join(toks)) what += "; seen inside " + std::string(1, target) + "UX " + join(toks) + " : real = " + (r.threw ? "throws" : !r.shape_err.empty() ? r.shape_err : show(r.e)) + ", statement = " + show(ex);
    R->count("viol:" + key);
    auto& best = g_viol[key];
    const std::string wcs = std::string(1, wtarget) + " : " + witness;
    if (best.cs.empty() || wcs.size() < best.cs.size() || (wcs.size() == best.cs.size() && wcs < best.cs)) best = {wcs, what, cs, toks.size()};
    return 0;
}

// ------------------------------------------------------------- enumeration
struct Opnd { Toks t; };
struct Regime {
    const char* name; char target; std::vector<Toks> alpha; int kmin, kmax;
    bool parens, minus; int funmode;      // funmode 0: no function, 1: exactly one function (operand or group wrapped)
    std::vector<Toks> fun_alpha;          // operands allowed directly inside a wrapped operand position when different (F target: sets)
};

static uint64_t g_structs = 0;
static void run_regime(const Regime& g) {
    const int NA = int(g.alpha.size());
    for (int k = g.kmin; k <= g.kmax; ++k) {
        std::vector<int> ops(k, 0);
        while (true) {
            // paren placements: none, or (i,j) with 0 <= i < j <= k
            std::vector<std::pair<int, int>> pars{{-1, -1}};
            if (g.parens) for (int i = 0; i <= k; ++i) for (int j = i + 1; j <= k; ++j) pars.push_back({i, j});
            for (auto [pi, pj] : pars) {
                for (int minus = 0; minus < (g.minus ? 3 : 1); ++minus) {
                    if (minus == 2 && pi < 0) continue;
                    // function placements
                    std::vector<std::pair<int, int>> funs;   // (function index, position: 0..k operand, -2 group)
                    if (g.funmode == 0) funs.push_back({-1, -1});
                    else for (int f = 0; f < int(FUNCS.size()); ++f) { for (int pos = 0; pos <= k; ++pos) funs.push_back({f, pos}); if (pi >= 0) funs.push_back({f, -2}); }
                    for (auto [fi, fpos] : funs) {
                        ++g_structs;
                        const bool reduction = fi >= 0 && fi < 10;
                        // operand odometer
                        std::vector<int> a(k + 1, 0);
                        // per-position alphabet size
                        auto asz = [&](int pos) { return (fpos == pos && reduction && !g.fun_alpha.empty()) ? int(g.fun_alpha.size()) : NA; };
                        while (true) {
                            if (R->mine()) {
                                if (R->timed_out()) return;
                                Toks t;
                                for (int i = 0; i <= k; ++i) {
                                    if (i > 0) t.push_back(OPS[ops[i - 1]]);
                                    if (minus == 1 && i == 0) t.push_back("-");
                                    if (fpos == -2 && i == pi) t.push_back(FUNCS[fi]);
                                    if (i == pi) t.push_back("(");
                                    if (minus == 2 && i == pi) t.push_back("-");
                                    if (fpos == i) { t.push_back(FUNCS[fi]); t.push_back("("); }
                                    const Toks& o = (fpos == i && reduction && !g.fun_alpha.empty()) ? g.fun_alpha[a[i]] : g.alpha[a[i]];
                                    t.insert(t.end(), o.begin(), o.end());
                                    if (fpos == i) t.push_back(")");
                                    if (i == pj) t.push_back(")");
                                }
                                do_case(g.target, t, g.name);
                            }
                            int d = 0;
                            while (d <= k) { if (++a[d] < asz(d)) break; a[d] = 0; ++d; }
                            if (d > k) break;
                        }
                    }
                }
            }
            int d = 0;
            while (d < k) { if (++ops[d] < int(OPS.size())) break; ops[d] = 0; ++d; }
            if (d >= k) break;
        }
    }
}

int main(int argc, char** argv) {
    vf::Run run("C17", argc, argv); R = &run;
    World world; W = &world;
    run.max_samples = 10;
    run.rule = std::string("every infix chain a o1 b o2 c ... with o in {+ - * / ^ < <= > >= == != UADD UMUL UMIN UMAX}, every placement of one parenthesis pair, unary minus at expression start or after '(' (<= 2 operators), ")
        + "and every registered one-argument function (24) applied to one operand or to the parenthesised group; "
        + "operands WUX: {2, 3, 0.5, FOPR, WOPR, WOPR 'P*', WOPR P1, WWPR}, GUX: {2, 3, 0.5, FOPR, GOPR, GOPR G1, GWPR}, FUX: {2, 3, 0.5, FOPR, WOPR P1, GOPR G1} (+ sets inside reductions), "
        + "plus an undefined scalar (WOPR P2 / GOPR G2) and an all-undefined set (WOPR 'X*') for <= 1 operator; "
        + (run.quick() ? "bounds: <= 2 operators over the full alphabets; 3 operators over {2,3,0.5} (FUX) and {0.5,WOPR,WWPR} (WUX); functions with <= 1 operator (full) and 2 operators over {0.5,WOPR}; unary minus for WUX/FUX only; "
                       : "bounds: <= 2 operators over the full alphabets; 3 operators over {2,0.5,FOPR,WOPR,WWPR} (WUX), {0.5,FOPR,GOPR,GWPR} (GUX), {2,3,0.5,FOPR} (FUX); 4 operators over {2,3,0.5} without and {3,0.5} with parentheses; functions with <= 1 operator (full alphabets) and 2 operators over {2,0.5,FOPR,WOPR,WWPR} / {0.5,FOPR,GOPR,GWPR} / {2,3,0.5,FOPR,WOPR P1}; ")
        + "oracle: precedence-climbing reference parser + element-wise evaluator written from the statement; distinct = distinct (result vector, tree shape)";
    run.assumptions = {
        "reference parser/evaluator in the harness (rank list of the statement; unary minus binds to the following atom; same-kind U-operator chains are associative)",
        "reduction/elemental definitions: SUM, AVEA, AVEG, AVEH, MAX, MIN, NORM1, NORM2, NORMI, PROD over defined elements (undefined if none); ABS, EXP, LN, LOG, NINT elementwise; DEF/UNDEF/IDV on definedness; SORTA/SORTD ranks among defined elements; RANDN/RANDU/RRNDN/RRNDU checked for definedness only",
        "comparisons: mathematical meaning, cases with 0 < |l-r| <= 100*eps*max(|l|,|r|) left out (documented tolerance eps = UDQPARAM item 4)",
        "well and group sets are never mixed in one expression (typed grammar: UDQ::coerce rejects it), GOPR lives in the GUX alphabet",
        "left out and counted: two ^ / two comparisons / different U-operators on one nesting level, unary minus directly before ^, division by zero, negative base, domain errors of LN/LOG/AVEG/AVEH, NINT/SORT ties, SUM/PROD/NORM1/NORM2 and SORT of a scalar-typed argument, non-finite values",
        "value alphabet is finite (dyadic rationals), 4 wells / 3 groups"};

    if (!run.replay_path.empty()) {
        const std::string& c = run.replay_path;     // "<T> : tok tok tok"
        Toks t; std::istringstream is(c.size() > 4 ? c.substr(4) : ""); std::string s; while (is >> s) t.push_back(s);
        do_case(c.empty() ? 'W' : c[0], t, "replay");
        flush_violations();
        return run.finish();
    }

    const std::vector<Toks> Wbase{{"2"}, {"3"}, {"0.5"}, {"FOPR"}, {"WOPR"}, {"WOPR", "'P*'"}, {"WOPR", "P1"}, {"WWPR"}};
    const std::vector<Toks> Gbase{{"2"}, {"3"}, {"0.5"}, {"FOPR"}, {"GOPR"}, {"GOPR", "G1"}, {"GWPR"}};
    const std::vector<Toks> Fbase{{"2"}, {"3"}, {"0.5"}, {"FOPR"}, {"WOPR", "P1"}, {"GOPR", "G1"}};
    const std::vector<Toks> Num3{{"2"}, {"3"}, {"0.5"}};
    const std::vector<Toks> W3{{"0.5"}, {"WOPR"}, {"WWPR"}};
    const std::vector<Toks> W2{{"0.5"}, {"WOPR"}};
    const std::vector<Toks> F4{{"2"}, {"3"}, {"0.5"}, {"FOPR"}};
    const std::vector<Toks> W5{{"2"}, {"0.5"}, {"FOPR"}, {"WOPR"}, {"WWPR"}};
    const std::vector<Toks> G4{{"0.5"}, {"FOPR"}, {"GOPR"}, {"GWPR"}};
    const std::vector<Toks> Num2{{"3"}, {"0.5"}};
    const std::vector<Toks> F5{{"2"}, {"3"}, {"0.5"}, {"FOPR"}, {"WOPR", "P1"}};
    std::vector<Toks> Wext = Wbase; Wext.push_back({"WOPR", "P2"}); Wext.push_back({"WOPR", "'X*'"});
    std::vector<Toks> Gext = Gbase; Gext.push_back({"GOPR", "G2"});
    std::vector<Toks> Fext = Fbase; Fext.push_back({"WOPR", "P2"});
    const std::vector<Toks> Fsets{{"WOPR"}, {"WOPR", "'P*'"}, {"WWPR"}, {"GOPR"}, {"WOPR", "'X*'"}, {"FOPR"}, {"2"}};

    // name, target, operand alphabet, kmin, kmax (operators), parenthesis placements, unary minus variants, function mode, alphabet inside reductions
    std::vector<Regime> regs;
    regs.push_back({"chain:W", 'W', Wbase, 0, 2, true, true, 0, {}});
    regs.push_back({"chain:G", 'G', Gbase, 0, 2, true, run.thorough(), 0, {}});
    regs.push_back({"chain:F", 'F', Fbase, 0, 2, true, true, 0, {}});
    regs.push_back({"chain-ext:W", 'W', Wext, 0, 1, true, true, 0, {}});      // + undefined scalar, all-undefined set
    regs.push_back({"chain-ext:G", 'G', Gext, 0, 1, true, true, 0, {}});
    regs.push_back({"chain-ext:F", 'F', Fext, 0, 1, true, true, 0, {}});
    regs.push_back({"func-ext:W", 'W', Wext, 0, 1, true, true, 1, {}});
    regs.push_back({"func-ext:G", 'G', Gext, 0, 1, true, true, 1, {}});
    regs.push_back({"func-ext:F", 'F', Fext, 0, 1, true, true, 1, Fsets});
    if (run.quick()) {
        regs.push_back({"deep3:F", 'F', Num3, 3, 3, true, false, 0, {}});
        regs.push_back({"deep3:W", 'W', W3, 3, 3, true, false, 0, {}});
        regs.push_back({"func2:W", 'W', W2, 2, 2, true, false, 1, {}});
    } else {
        regs.push_back({"deep3:W", 'W', W5, 3, 3, true, false, 0, {}});
        regs.push_back({"deep3:G", 'G', G4, 3, 3, true, false, 0, {}});
        regs.push_back({"deep3:F", 'F', F4, 3, 3, true, false, 0, {}});
        regs.push_back({"deep3m:F", 'F', Num3, 3, 3, true, true, 0, {}});
        regs.push_back({"deep4:F", 'F', Num3, 4, 4, false, false, 0, {}});
        regs.push_back({"deep4p:F", 'F', Num2, 4, 4, true, false, 0, {}});
        regs.push_back({"func2:W", 'W', W5, 2, 2, true, false, 1, {}});
        regs.push_back({"func2:G", 'G', G4, 2, 2, true, false, 1, {}});
        regs.push_back({"func2:F", 'F', F5, 2, 2, true, false, 1, Fsets});
    }
    // directly nested unary minus signs: -(-X), -(-(X+1)), (-(-X)) ... as operands of every chain with <= 1 (thorough: 2) operators, with and
    // without a further leading minus / parenthesis pair (signs must compose: an even number of negations is the identity)
    {
        const std::vector<Toks> Wneg{{"WOPR"}, {"0.5"}, {"(", "-", "WOPR", ")"}, {"(", "-", "(", "-", "WOPR", ")", ")"}, {"(", "-", "(", "-", "(", "-", "WWPR", ")", ")", ")"}, {"(", "-", "(", "-", "ABS", "(", "WOPR", ")", ")", ")"}, {"(", "-", "(", "-", "(", "WOPR", "+", "1", ")", ")", ")"}, {"(", "-", "(", "-", "WOPR", "*", "2", ")", ")"}};
        const std::vector<Toks> Fneg{{"FOPR"}, {"2"}, {"(", "-", "FOPR", ")"}, {"(", "-", "(", "-", "FOPR", ")", ")"}, {"(", "-", "(", "-", "(", "-", "3", ")", ")", ")"}, {"(", "-", "(", "-", "(", "FOPR", "+", "1", ")", ")", ")"}};
        regs.push_back({"negnest:W", 'W', Wneg, 0, run.thorough() ? 2 : 1, true, true, 0, {}});
        regs.push_back({"negnest:F", 'F', Fneg, 0, run.thorough() ? 2 : 1, true, true, 0, {}});
    }
    const char* only = std::getenv("C17_ONLY");                 // development aid: run one regime
    for (auto& g : regs) { if (only && std::string(g.name) != only) continue; run_regime(g); if (run.timed_out()) break; }
    run.count("structures", run.shard == 0 ? (long long)g_structs : 0);
    flush_violations();
    return run.finish();
}
