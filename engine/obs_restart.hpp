// obs_restart.hpp — the explicit query list of C05's schedule oracle.
//
// obs::sched_restart(sched, step, st, sweep) records what a simulator asks a Schedule at one report
// step about the things the C05 statement promises for a restarted run: wells (names, order, group,
// status, kind, evaluated controls / limits / targets, efficiency factor), connections, segments,
// group tree, evaluated group controls / limits / targets, efficiency factors, well lists, UDQ and
// ACTIONX definitions, network.  Every entry has
//   key  : "<entity>/<field>"                  (e.g. "W:P1/ctl.oil_rate", "C:P2#1/CF")
//   cls  : "<field>:<kind of entity>"          (e.g. "ctl.oil_rate:prod"  -> violation key C05:sched:<cls>)
//   a string value, or a number with the precision class it has to be compared with:
//     EXACT  integers, enums, names, and numbers that never pass through the file as REAL
//     REAL   the restart file stores the quantity as a 4-byte REAL in deck units (SWEL, SCON, SGRP, ...)
//     DBL    stored as DOUB in deck units: equal up to the rounding of the unit conversion pair
// It deliberately is NOT canon(): that contains members the statement does not promise
// (first-report-step index, bookkeeping flags, ...), see DESIGN.md C05.
#pragma once
#include "obs.hpp"
#include <opm/input/eclipse/Schedule/SummaryState.hpp>
#include <opm/input/eclipse/Schedule/UDQ/UDQToken.hpp>
#include <opm/input/eclipse/Schedule/UDQ/UDQInput.hpp>
#include <opm/input/eclipse/Schedule/UDQ/UDQDefine.hpp>
#include <opm/input/eclipse/Schedule/UDQ/UDQAssign.hpp>
#include <opm/input/eclipse/Schedule/UDQ/UDQSet.hpp>
#include <opm/input/eclipse/Schedule/Action/Condition.hpp>
#include <opm/input/eclipse/Schedule/Network/Node.hpp>
#include <opm/input/eclipse/Schedule/Network/Branch.hpp>
#include <opm/input/eclipse/Schedule/Well/WellProductionControls.hpp>
#include <opm/input/eclipse/Schedule/Well/WellInjectionControls.hpp>
#include <opm/input/eclipse/Schedule/ScheduleTypes.hpp>
#include <cmath>

namespace obs {

enum class Prec { EXACT, REAL, DBL };
struct Item { std::string key, cls; bool num = false; double v = 0; Prec p = Prec::EXACT; std::string s; };
struct Sweep {
    std::vector<Item> items;
    void S(const std::string& key, const std::string& cls, const std::string& s) { Item i; i.key = key; i.cls = cls; i.s = s; items.push_back(std::move(i)); }
    void I(const std::string& key, const std::string& cls, long long v) { S(key, cls, std::to_string(v)); }
    void N(const std::string& key, const std::string& cls, double v, Prec p = Prec::REAL) { Item i; i.key = key; i.cls = cls; i.num = true; i.v = v; i.p = p; items.push_back(std::move(i)); }
};

// how two numbers of a precision class compare
inline bool num_equal(double a, double b, Prec p, bool formatted = false) {
    if (a == b) return true;
    if (std::isnan(a) || std::isnan(b)) return std::isnan(a) && std::isnan(b);
    if (std::isinf(a) || std::isinf(b)) return false;
    if (p == Prec::EXACT) return false;
    const double m = std::max(std::fabs(a), std::fabs(b));
    // REAL: one rounding to float (2^-24 relative) plus the unit-conversion pair -> 1.2e-7; DBL: the conversion pair only.
    // A FORMATTED file prints REAL with 8 and DOUB with 14 significant digits (relative error up to 5e-8 / 5e-14).
    const double rel = p == Prec::REAL ? (formatted ? 2.5e-7 : 1.2e-7) : (formatted ? 1.0e-13 : 2.0e-15);
    return std::fabs(a - b) <= rel * m;
}

inline std::string well_kind(const Opm::Well& w) {
    if (w.isProducer()) return w.isMultiSegment() ? "mswprod" : "prod";
    switch (w.injectorType()) { case Opm::InjectorType::WATER: return "winj"; case Opm::InjectorType::GAS: return "ginj"; case Opm::InjectorType::OIL: return "oinj"; default: return "minj"; }
}

inline void well_controls(const Opm::Well& w, const Opm::SummaryState& st, const std::string& K, const std::string& kind, Sweep& o) {
    using PC = Opm::Well::ProducerCMode; using IC = Opm::Well::InjectorCMode;
    if (w.isProducer()) {
        const auto c = w.productionControls(st);
        // the requested control mode is meaningful for a well that is not shut (upstream's Schedule::cmp does the same)
        if (w.getStatus() == Opm::Well::Status::OPEN) o.I(K + "ctl.cmode", "ctl.cmode:" + kind, (int)c.cmode);
        std::string has; for (PC m : {PC::ORAT, PC::WRAT, PC::GRAT, PC::LRAT, PC::CRAT, PC::RESV, PC::BHP, PC::THP, PC::GRUP}) has += c.hasControl(m) ? '1' : '0';
        o.S(K + "ctl.has", "ctl.has:" + kind, has);
        o.I(K + "ctl.prediction", "ctl.prediction:" + kind, c.prediction_mode);
        // a limit is promised when the well has that control (a value behind an inactive control is not used by anybody)
        if (c.hasControl(PC::ORAT) || !c.prediction_mode) o.N(K + "ctl.oil_rate", "ctl.oil_rate:" + kind, c.oil_rate);
        if (c.hasControl(PC::WRAT) || !c.prediction_mode) o.N(K + "ctl.water_rate", "ctl.water_rate:" + kind, c.water_rate);
        if (c.hasControl(PC::GRAT) || !c.prediction_mode) o.N(K + "ctl.gas_rate", "ctl.gas_rate:" + kind, c.gas_rate);
        if (c.hasControl(PC::LRAT)) o.N(K + "ctl.liquid_rate", "ctl.liquid_rate:" + kind, c.liquid_rate);
        if (c.hasControl(PC::RESV) && c.prediction_mode) o.N(K + "ctl.resv_rate", "ctl.resv_rate:" + kind, c.resv_rate);
        if (c.hasControl(PC::BHP)) o.N(K + "ctl.bhp_limit", "ctl.bhp_limit:" + kind, c.bhp_limit);
        if (c.hasControl(PC::THP)) o.N(K + "ctl.thp_limit", "ctl.thp_limit:" + kind, c.thp_limit);
        o.I(K + "ctl.vfp", "ctl.vfp:" + kind, c.vfp_table_number);
        if (c.vfp_table_number > 0) o.N(K + "ctl.alq", "ctl.alq:" + kind, c.alq_value);
    } else {
        const auto c = w.injectionControls(st);
        if (w.getStatus() == Opm::Well::Status::OPEN) o.I(K + "ctl.cmode", "ctl.cmode:" + kind, (int)c.cmode);
        std::string has; for (IC m : {IC::RATE, IC::RESV, IC::BHP, IC::THP, IC::GRUP}) has += c.hasControl(m) ? '1' : '0';
        o.S(K + "ctl.has", "ctl.has:" + kind, has);
        o.I(K + "ctl.prediction", "ctl.prediction:" + kind, c.prediction_mode);
        o.I(K + "ctl.injtype", "ctl.injtype:" + kind, (int)c.injector_type);
        if (c.hasControl(IC::RATE)) o.N(K + "ctl.surface_rate", "ctl.surface_rate:" + kind, c.surface_rate);
        if (c.hasControl(IC::RESV)) o.N(K + "ctl.reservoir_rate", "ctl.reservoir_rate:" + kind, c.reservoir_rate);
        if (c.hasControl(IC::BHP)) o.N(K + "ctl.bhp_limit", "ctl.bhp_limit:" + kind, c.bhp_limit);
        if (c.hasControl(IC::THP)) o.N(K + "ctl.thp_limit", "ctl.thp_limit:" + kind, c.thp_limit);
        o.I(K + "ctl.vfp", "ctl.vfp:" + kind, c.vfp_table_number);
    }
}

inline void well_items(const Opm::Well& w, const Opm::SummaryState& st, Sweep& o) {
    const std::string K = "W:" + w.name() + "/", kind = well_kind(w);
    o.S(K + "group", "well.group:" + kind, w.groupName());
    o.I(K + "status", "well.status:" + kind, (int)w.getStatus());
    o.I(K + "producer", "well.producer:" + kind, w.isProducer());
    o.I(K + "headI", "well.head:" + kind, w.getHeadI()); o.I(K + "headJ", "well.head:" + kind, w.getHeadJ());
    if (w.hasRefDepth()) o.N(K + "refdepth", "well.refdepth:" + kind, w.getRefDepth()); else o.S(K + "refdepth", "well.refdepth:" + kind, "-");
    o.N(K + "efac", "well.efac:" + kind, w.getEfficiencyFactor());
    o.I(K + "seqIndex", "well.seqIndex:" + kind, (long long)w.seqIndex());
    o.I(K + "msw", "well.msw:" + kind, w.isMultiSegment());
    o.I(K + "xflow", "well.xflow:" + kind, w.getAllowCrossFlow());
    o.I(K + "autoshut", "well.autoshut:" + kind, w.getAutomaticShutIn());
    o.I(K + "gcon", "well.gcon:" + kind, w.isAvailableForGroupControl());
    o.N(K + "guiderate", "well.guiderate:" + kind, w.getGuideRate());
    o.I(K + "guideratephase", "well.guideratephase:" + kind, (int)w.getGuideRatePhase());
    o.N(K + "guideratescale", "well.guideratescale:" + kind, w.getGuideRateScalingFactor());
    o.N(K + "drainage", "well.drainage:" + kind, w.getDrainageRadius());
    if (w.isProducer()) o.I(K + "prefphase", "well.prefphase:" + kind, (int)w.getPreferredPhase());
    o.I(K + "pvt", "well.pvt:" + kind, w.pvt_table_number());
    try { well_controls(w, st, K, kind, o); } catch (const std::exception& e) { o.S(K + "ctl", "ctl.throws:" + kind, std::string("EXC ") + e.what()); }
    // connections
    const auto& cs = w.getConnections();
    o.I(K + "nconn", "conn.count:" + kind, (long long)cs.size());
    o.I(K + "connorder", "conn.ordering:" + kind, (int)cs.ordering());
    for (std::size_t i = 0; i < cs.size(); ++i) {
        const auto& c = cs[i]; const std::string C = "C:" + w.name() + "#" + std::to_string(i) + "/";
        o.S(C + "ijk", "conn.ijk:" + kind, std::to_string(c.getI()) + "," + std::to_string(c.getJ()) + "," + std::to_string(c.getK()));
        o.I(C + "gindex", "conn.global_index:" + kind, (long long)c.global_index());
        o.I(C + "state", "conn.state:" + kind, (int)c.state());
        o.I(C + "dir", "conn.dir:" + kind, (int)c.dir());
        o.I(C + "complnum", "conn.complnum:" + kind, c.complnum());
        o.I(C + "segment", "conn.segment:" + kind, c.segment());
        o.I(C + "kind", "conn.kind:" + kind, (int)c.kind());
        o.I(C + "sort", "conn.sort_value:" + kind, (long long)c.sort_value());
        o.I(C + "sat", "conn.satTableId:" + kind, c.satTableId());
        o.N(C + "CF", "conn.CF:" + kind, c.CF());
        o.N(C + "Kh", "conn.Kh:" + kind, c.Kh());
        o.N(C + "rw", "conn.rw:" + kind, c.rw());
        o.N(C + "depth", "conn.depth:" + kind, c.depth());
        o.N(C + "skin", "conn.skin:" + kind, c.skinFactor());
        // Connection::wpimult() (accumulated WPIMULT factor) is bookkeeping: CF() above already carries the multiplier,
        // and the file stores the effective CF only -> not part of the list
        if (c.attachedToSegment() && c.perf_range()) { o.N(C + "perf0", "conn.perf_range:" + kind, c.perf_range()->first); o.N(C + "perf1", "conn.perf_range:" + kind, c.perf_range()->second); }
    }
    if (w.isMultiSegment()) {
        const auto& ss = w.getSegments();
        o.I(K + "nseg", "seg.count:" + kind, (long long)ss.size());
        for (std::size_t i = 0; i < ss.size(); ++i) {
            // a segment is identified by its NUMBER; its storage position in WellSegments is representation (the deck path keeps
            // branches consecutive, the restart path sorts by number) and is not part of the list
            const auto& s = ss[i]; const std::string S = "S:" + w.name() + "#" + std::to_string(s.segmentNumber()) + "/";
            o.I(S + "number", "seg.number:" + kind, s.segmentNumber());
            o.I(S + "branch", "seg.branch:" + kind, s.branchNumber());
            o.I(S + "outlet", "seg.outlet:" + kind, s.outletSegment());
            o.N(S + "length", "seg.length:" + kind, s.totalLength(), Prec::DBL);
            o.N(S + "depth", "seg.depth:" + kind, s.depth(), Prec::DBL);
            o.N(S + "diameter", "seg.diameter:" + kind, s.internalDiameter(), Prec::DBL);
            o.N(S + "roughness", "seg.roughness:" + kind, s.roughness(), Prec::DBL);
            o.N(S + "area", "seg.area:" + kind, s.crossArea(), Prec::DBL);
            o.N(S + "volume", "seg.volume:" + kind, s.volume(), Prec::DBL);
            o.I(S + "type", "seg.type:" + kind, (int)s.segmentType());
            if (s.isValve()) {
                const auto& v = s.valve();
                o.N(S + "valve.Cv", "seg.valve.flow_coeff:" + kind, v.conFlowCoefficient(), Prec::DBL);
                o.N(S + "valve.Ac", "seg.valve.area:" + kind, v.conCrossArea(), Prec::DBL);
                o.N(S + "valve.Amax", "seg.valve.max_area:" + kind, v.conMaxCrossArea(), Prec::DBL);
                o.N(S + "valve.L", "seg.valve.add_length:" + kind, v.pipeAdditionalLength(), Prec::DBL);
                o.N(S + "valve.D", "seg.valve.pipe_diameter:" + kind, v.pipeDiameter(), Prec::DBL);
                o.N(S + "valve.R", "seg.valve.pipe_roughness:" + kind, v.pipeRoughness(), Prec::DBL);
                o.N(S + "valve.A", "seg.valve.pipe_area:" + kind, v.pipeCrossArea(), Prec::DBL);
                o.I(S + "valve.status", "seg.valve.status:" + kind, (int)v.status());
            }
            if (s.isSpiralICD()) {
                const auto& v = s.spiralICD();
                o.N(S + "sicd.strength", "seg.sicd.strength:" + kind, v.strength(), Prec::DBL);
                o.N(S + "sicd.length", "seg.sicd.length:" + kind, v.length(), Prec::DBL);
                o.N(S + "sicd.rho", "seg.sicd.density_cal:" + kind, v.densityCalibration(), Prec::DBL);
                o.N(S + "sicd.mu", "seg.sicd.viscosity_cal:" + kind, v.viscosityCalibration(), Prec::DBL);
                o.N(S + "sicd.crit", "seg.sicd.critical:" + kind, v.criticalValue(), Prec::DBL);
                o.N(S + "sicd.width", "seg.sicd.transition_width:" + kind, v.widthTransitionRegion(), Prec::DBL);
                o.N(S + "sicd.maxvisc", "seg.sicd.max_visc_ratio:" + kind, v.maxViscosityRatio(), Prec::DBL);
                o.I(S + "sicd.method", "seg.sicd.scaling_method:" + kind, v.methodFlowScaling());
                if (v.maxAbsoluteRate()) o.N(S + "sicd.maxrate", "seg.sicd.max_rate:" + kind, *v.maxAbsoluteRate(), Prec::DBL); else o.S(S + "sicd.maxrate", "seg.sicd.max_rate:" + kind, "-");
                o.I(S + "sicd.status", "seg.sicd.status:" + kind, (int)v.status());
            }
        }
    }
}

inline void group_items(const Opm::Group& g, const Opm::SummaryState& st, Sweep& o) {
    const std::string K = "G:" + g.name() + "/", kind = g.is_field() ? "field" : "group";
    o.S(K + "parent", "group.parent:" + kind, g.is_field() ? std::string("-") : g.parent());
    { std::string s; for (auto& c : g.groups()) s += c + ","; o.S(K + "children", "group.children:" + kind, s); }
    { std::string s; for (auto& c : g.wells()) s += c + ","; o.S(K + "wells", "group.wells:" + kind, s); }
    o.N(K + "efac", "group.efac:" + kind, g.getGroupEfficiencyFactor());
    o.I(K + "isprod", "group.isprod:" + kind, g.isProductionGroup());
    o.I(K + "isinj", "group.isinj:" + kind, g.isInjectionGroup());
    if (g.isProductionGroup()) {
        try {
            using C = Opm::Group::ProductionCMode;
            const auto c = g.productionControls(st);
            o.I(K + "prod.cmode", "gctl.cmode:" + kind, (int)c.cmode);
            o.I(K + "prod.action", "gctl.limit_action:" + kind, (int)c.group_limit_action.allRates);
            std::string has; for (C m : {C::ORAT, C::WRAT, C::GRAT, C::LRAT, C::CRAT, C::RESV, C::PRBL, C::FLD}) has += g.has_control(m) ? '1' : '0';
            o.S(K + "prod.has", "gctl.has:" + kind, has);
            if (g.has_control(C::ORAT)) o.N(K + "prod.oil_target", "gctl.oil_target:" + kind, c.oil_target);
            if (g.has_control(C::WRAT)) o.N(K + "prod.water_target", "gctl.water_target:" + kind, c.water_target);
            if (g.has_control(C::GRAT)) o.N(K + "prod.gas_target", "gctl.gas_target:" + kind, c.gas_target);
            if (g.has_control(C::LRAT)) o.N(K + "prod.liquid_target", "gctl.liquid_target:" + kind, c.liquid_target);
            if (g.has_control(C::RESV)) o.N(K + "prod.resv_target", "gctl.resv_target:" + kind, c.resv_target);
            o.I(K + "prod.grdef", "gctl.guide_rate_def:" + kind, (int)c.guide_rate_def);
            if (c.guide_rate_def != Opm::Group::GuideRateProdTarget::NO_GUIDE_RATE) o.N(K + "prod.guide_rate", "gctl.guide_rate:" + kind, c.guide_rate);
            o.I(K + "prod.available", "gctl.available:" + kind, g.productionGroupControlAvailable());
        } catch (const std::exception& e) { o.S(K + "prod", "gctl.throws:" + kind, std::string("EXC ") + e.what()); }
    }
    if (g.isInjectionGroup()) {
        for (Opm::Phase ph : {Opm::Phase::WATER, Opm::Phase::GAS, Opm::Phase::OIL}) {
            if (!g.hasInjectionControl(ph)) continue;
            const std::string P = K + "inj" + std::to_string((int)ph) + ".";
            try {
                using C = Opm::Group::InjectionCMode;
                const auto c = g.injectionControls(ph, st);
                o.I(P + "cmode", "ginj.cmode:" + kind, (int)c.cmode);
                std::string has; for (C m : {C::RATE, C::RESV, C::REIN, C::VREP, C::FLD, C::SALE}) has += g.has_control(ph, m) ? '1' : '0';
                o.S(P + "has", "ginj.has:" + kind, has);
                if (g.has_control(ph, C::RATE)) o.N(P + "surface_max_rate", "ginj.surface_max_rate:" + kind, c.surface_max_rate);
                if (g.has_control(ph, C::RESV)) o.N(P + "resv_max_rate", "ginj.resv_max_rate:" + kind, c.resv_max_rate);
                if (g.has_control(ph, C::REIN)) { o.N(P + "reinj_fraction", "ginj.reinj_fraction:" + kind, c.target_reinj_fraction); o.S(P + "reinj_group", "ginj.reinj_group:" + kind, c.reinj_group); }
                if (g.has_control(ph, C::VREP)) { o.N(P + "void_fraction", "ginj.void_fraction:" + kind, c.target_void_fraction); o.S(P + "voidage_group", "ginj.voidage_group:" + kind, c.voidage_group); }
                o.I(P + "available", "ginj.available:" + kind, g.injectionGroupControlAvailable(ph));
                o.I(P + "guide_rate_def", "ginj.guide_rate_def:" + kind, (int)c.guide_rate_def);
                if (c.guide_rate_def != Opm::Group::GuideRateInjTarget::NO_GUIDE_RATE) o.N(P + "guide_rate", "ginj.guide_rate:" + kind, c.guide_rate);
                o.I(P + "controls", "ginj.injection_controls:" + kind, c.injection_controls);
            } catch (const std::exception& e) { o.S(P + "x", "ginj.throws:" + kind, std::string("EXC ") + e.what()); }
        }
        { std::string s; for (Opm::Phase ph : {Opm::Phase::WATER, Opm::Phase::GAS, Opm::Phase::OIL}) s += g.hasInjectionControl(ph) ? '1' : '0'; o.S(K + "inj.phases", "ginj.phases:" + kind, s); }
    }
}

inline std::string udq_tokens(const Opm::UDQDefine& d) {
    std::string s;
    for (const auto& t : d.tokens()) {
        s += "<" + std::to_string((int)t.type()) + ":";
        if (std::holds_alternative<double>(t.value())) s += obs::d(std::get<double>(t.value())); else s += std::get<std::string>(t.value());
        for (auto& x : t.selector()) s += "|" + x;
        s += ">";
    }
    return s;
}

// Observation of schedule state `step` restricted to what the C05 statement promises.
inline void sched_restart(const Opm::Schedule& sched, std::size_t step, const Opm::SummaryState& st, Sweep& o) {
    const auto& S = sched[step];
    // prevailing WHISTCTL override (decides the control of every later WCONHIST)
    o.I("whistctl", "whistctl", (int)S.whistctl());
    // wells
    { std::string s; for (const auto& wn : sched.wellNames(step)) s += wn + ","; o.S("wells", "well.names", s); }
    for (const auto& wn : sched.wellNames(step)) well_items(sched.getWell(wn, step), st, o);
    // groups
    { auto gn = sched.groupNames(step); std::sort(gn.begin(), gn.end()); std::string s; for (auto& g : gn) s += g + ","; o.S("groups", "group.names", s);
      for (auto& g : gn) group_items(sched.getGroup(g, step), st, o); }
    // well lists
    {
        const auto& wl = S.wlist_manager.get();
        static const char* LN[] = {"*L1", "*L2", "*L3", "*A", "*B", "*C"};
        // lists of a well = the lists it is a member of.  (WListManager::getWListNames() is the per-well SLOT table: a list the well
        // was deleted from keeps its slot there - layout, not membership - so it is not used.)
        for (const auto& wn : sched.wellNames(step)) {
            std::string s;
            for (const char* ln : LN) if (wl.hasList(ln)) { const auto ws = wl.getList(ln).wells(); if (std::find(ws.begin(), ws.end(), wn) != ws.end()) s += std::string(ln) + ","; }
            o.S("WL:" + wn, "wlist.of_well", s);
        }
        // members and order of every list; a list without members is reported separately: the file records lists per well, so
        // "exists but empty" is a distinct question from "who is in it"
        for (const char* ln : LN) {
            std::string s; bool empty_exists = false;
            if (wl.hasList(ln)) { const auto ws = wl.getList(ln).wells(); for (auto& x : ws) s += x + ","; empty_exists = ws.empty(); }
            o.S(std::string("WLIST:") + ln, "wlist.members", s);
            o.I(std::string("WLIST:") + ln + "/empty_list_exists", "wlist.empty_list_exists", empty_exists);
        }
    }
    // UDQ definitions
    {
        const auto& uq = S.udq.get();
        std::string order;
        for (const auto& in : uq.input()) {
            order += in.keyword() + ",";
            const std::string K = "UDQ:" + in.keyword() + "/";
            o.I(K + "vartype", "udq.var_type", (int)in.var_type());
            o.S(K + "unit", "udq.unit", in.unit());
            if (in.is<Opm::UDQDefine>()) {
                const auto& dd = in.get<Opm::UDQDefine>();
                o.S(K + "kind", "udq.kind", "DEFINE");
                o.S(K + "tokens", "udq.define_tokens", udq_tokens(dd));
                o.I(K + "update", "udq.update_status", (int)dd.status().first);
            } else {
                const auto& aa = in.get<Opm::UDQAssign>();
                o.S(K + "kind", "udq.kind", "ASSIGN");
                try {
                    std::string v;
                    // An ASSIGN is evaluated once, at the report step it is entered, for the wells/groups known then; the values
                    // persist in the UDQState.  So what the definition promises is the set of DEFINED values over the entities that
                    // exist at min(step, report step of the assignment) - not what the record would give for later wells.
                    const std::size_t at = std::min<std::size_t>(step, aa.report_step());
                    if (aa.var_type() == Opm::UDQVarType::WELL_VAR) { auto set = aa.eval(sched.wellNames(at)); for (const auto& e : set) if (e.defined()) v += e.wgname() + "=" + obs::d(e.get()) + ","; }
                    else if (aa.var_type() == Opm::UDQVarType::GROUP_VAR) { auto set = aa.eval(sched.groupNames(at)); for (const auto& e : set) if (e.defined()) v += e.wgname() + "=" + obs::d(e.get()) + ","; }
                    else if (aa.var_type() == Opm::UDQVarType::FIELD_VAR || aa.var_type() == Opm::UDQVarType::SCALAR) { auto set = aa.eval(); for (const auto& e : set) v += (e.defined() ? obs::d(e.get()) : std::string("undef")) + ","; }
                    o.S(K + "value", "udq.assign_value", v);
                } catch (const std::exception& e) { o.S(K + "value", "udq.assign_throws", std::string("EXC ") + e.what()); }
            }
        }
        o.S("UDQ/order", "udq.order", order);
        o.N("UDQ/undefined", "udq.undefined_value", uq.params().undefinedValue(), Prec::EXACT);
        // UDA use: which control of which well/group takes its value from which UDQ
        std::vector<std::string> uses;
        for (const auto& r : S.udq_active.get().iuap()) uses.push_back(r.udq + "@" + r.wgname + ":" + std::to_string((int)r.control));
        std::sort(uses.begin(), uses.end()); std::string s; for (auto& u : uses) s += u + ","; o.S("UDA/uses", "uda.uses", s);
        // ... and the aggregated table the restart writer takes (IUAD): UDQ, control, number of users, in order
        { std::string t; for (const auto& r : S.udq_active.get().iuad()) t += r.udq + ":" + std::to_string((int)r.control) + "x" + std::to_string(r.use_count) + "@" + std::to_string(r.use_index) + ","; o.S("UDA/iuad", "uda.iuad", t); }
    }
    // ACTIONX definitions
    {
        std::string names;
        for (const auto& a : S.actions.get()) {
            names += a.name() + ",";
            const std::string K = "ACT:" + a.name() + "/";
            o.I(K + "max_run", "actionx.max_run", (long long)a.max_run());
            o.N(K + "min_wait", "actionx.min_wait", a.min_wait());
            std::string c;
            for (const auto& cd : a.conditions()) {
                // a numeric operand is a number, however it is spelled ("0.95" / "0.950000")
                auto opnd = [](const std::string& q) { char* end = nullptr; const double v = std::strtod(q.c_str(), &end); return (!q.empty() && end && *end == 0) ? "#" + obs::d(v) : q; };
                c += "{" + opnd(cd.lhs.quantity) + "("; for (auto& x : cd.lhs.args) c += x + ","; c += ")" + std::to_string(cd.comparator_as_int()) + opnd(cd.rhs.quantity) + "("; for (auto& x : cd.rhs.args) c += x + ","; c += ")";
                c += " L" + std::to_string(cd.logic_as_int()) + " P" + std::to_string(cd.paren_as_int()) + "}";
            }
            o.S(K + "conditions", "actionx.conditions", c);
            std::string kw; for (const auto& k : a) kw += vf::canon(k) + ";"; o.S(K + "keywords", "actionx.keywords", kw);
        }
        o.S("ACT/names", "actionx.names", names);
    }
    // network
    {
        const auto& nw = S.network.get();
        o.I("NET/active", "network.active", nw.active());
        auto nn = nw.node_names(); std::sort(nn.begin(), nn.end());
        std::string s; for (auto& n : nn) s += n + ","; o.S("NET/nodes", "network.nodes", s);
        for (auto& n : nn) {
            const auto& nd = nw.node(n); const std::string K = "NODE:" + n + "/";
            if (nd.terminal_pressure()) o.N(K + "terminal_pressure", "network.terminal_pressure", *nd.terminal_pressure()); else o.S(K + "terminal_pressure", "network.terminal_pressure", "-");
            o.I(K + "as_choke", "network.as_choke", nd.as_choke());
            o.I(K + "add_gas_lift_gas", "network.add_gas_lift_gas", nd.add_gas_lift_gas());
            auto up = nw.uptree_branch(n);
            if (up) { o.S(K + "uptree", "network.branch", up->uptree_node()); o.S(K + "vfp", "network.branch_vfp", up->vfp_table() ? std::to_string(*up->vfp_table()) : std::string("none")); }
            else o.S(K + "uptree", "network.branch", "-");
        }
    }
}

} // namespace obs
