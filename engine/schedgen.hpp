// schedgen.hpp — base model deck + SCHEDULE snippet alphabets shared by the
// schedule-model harnesses (C03, C04, C06, C11).
#pragma once
#include <string>
#include <vector>

namespace schedgen {

struct Ev { std::string name, text; bool time = false; };

// 3x3x3 grid, one inactive cell, three phases, dimensions generous enough for every snippet.
inline std::string base_deck(const std::string& units = "METRIC") {
    std::string u = units == "METRIC" ? "METRIC\n" : units == "FIELD" ? "FIELD\n" : units == "LAB" ? "LAB\n" : "PVT-M\n";
    return "RUNSPEC\n" + u + R"(DIMENS
 3 3 3 /
OIL
WATER
GAS
DISGAS
VAPOIL
TABDIMS
 1 1 20 20 3 20 /
EQLDIMS
 1 /
REGDIMS
 3 1 0 0 /
WELLDIMS
 8 6 5 5 /
WSEGDIMS
 3 8 4 /
UDQDIMS
 10 10 4 4 4 4 4 4 4 4 4 /
UDADIMS
 10 1* 10 /
ACTDIMS
 6 10 /
VFPPDIMS
 5 5 5 5 5 3 /
VFPIDIMS
 5 5 3 /
NETWORK
 5 5 /
AQUDIMS
 1* 1* 1* 1* 3 20 /
TRACERS
 1* 1 /
START
 1 JAN 2020 /
GRID
DX
 27*100 /
DY
 27*100 /
DZ
 27*10 /
TOPS
 9*2000 /
PORO
 27*0.3 /
PERMX
 27*100 /
PERMY
 27*50 /
PERMZ
 27*10 /
ACTNUM
 13*1 0 13*1 /
FAULTS
 'F1' 1 1 1 3 1 3 X /
/
PROPS
TRACER
 'T1' 'WAT' /
/
REGIONS
FIPNUM
 9*1 9*2 9*3 /
SOLUTION
SCHEDULE
)";
}

inline const char* month_name(int m) { static const char* n[] = {"JAN", "FEB", "MAR", "APR", "MAY", "JUN", "JUL", "AUG", "SEP", "OCT", "NOV", "DEC"}; return n[(m - 1) % 12]; }

// Renders a history (event indices) as a complete deck.  Time events: DATES to the first of the next month.
inline std::string render(const std::vector<Ev>& alphabet, const std::vector<int>& hist, const std::string& units = "METRIC", const std::string& prelude = "") {
    std::string s = base_deck(units) + prelude;
    int month = 1, year = 2020;
    for (int e : hist) {
        const Ev& ev = alphabet[e];
        if (ev.time && ev.name == "DATES_same") s += std::string("DATES\n 1 ") + month_name(month) + " " + std::to_string(year) + " /\n/\n";      // repeats the date reached: a report step of zero length
        else if (ev.time && ev.text.empty()) { ++month; if (month > 12) { month = 1; ++year; } s += std::string("DATES\n 1 ") + month_name(month) + " " + std::to_string(year) + " /\n/\n"; }
        else s += ev.text;
    }
    s += "END\n";
    return s;
}

// Three wells in three groups defined at step 0 (prelude of the broad regime and of C04/C06).
inline std::string prelude_wells() {
    return R"(GRUPTREE
 'G1' 'PLAT' /
 'G2' 'PLAT' /
/
WELSPECS
 'P1' 'G1' 1 1 1* OIL /
 'P2' 'G2' 2 2 1* OIL /
 'I1' 'G2' 3 3 1* WATER /
/
COMPDAT
 'P1' 1 1 1 3 OPEN 1* 1* 0.2 /
 'P2' 2 2 1 2 OPEN 1* 1* 0.2 /
 'I1' 3 3 1 2 OPEN 1* 1* 0.2 /
/
WCONPROD
 'P1' OPEN ORAT 100 4* 50 /
 'P2' OPEN ORAT 120 4* 60 /
/
WCONINJE
 'I1' WATER OPEN RATE 200 1* 500 /
/
)";
}

// Deep alphabet: few, colliding events (same well P1, same group G1), explored to depth 4-6.
inline std::vector<Ev> deep_alphabet() {
    return {
        {"DATES", "", true},
        {"TSTEP", "TSTEP\n 10 /\n", true},
        {"WELSPECS_P1", "WELSPECS\n 'P1' 'G1' 1 1 1* OIL /\n/\nCOMPDAT\n 'P1' 1 1 1 3 OPEN 1* 1* 0.2 /\n/\n"},
        {"WELSPECS_I1", "WELSPECS\n 'I1' 'G2' 3 3 1* WATER /\n/\nCOMPDAT\n 'I1' 3 3 1 2 OPEN 1* 1* 0.2 /\n/\n"},
        {"WCONPROD_P1", "WCONPROD\n 'P1' OPEN ORAT 100 4* 50 /\n/\n"},
        {"WCONINJE_I1", "WCONINJE\n 'I1' WATER OPEN RATE 200 1* 500 /\n/\n"},
        {"WELOPEN_P1", "WELOPEN\n 'P1' SHUT /\n/\n"},
        {"WELOPEN_P1c", "WELOPEN\n 'P1' SHUT 0 0 2 /\n/\n"},
        {"COMPDAT_P1b", "COMPDAT\n 'P1' 1 1 2 2 OPEN 1* 25.0 0.3 /\n/\n"},
        {"GRUPTREE", "GRUPTREE\n 'G1' 'PLAT' /\n 'G2' 'PLAT' /\n/\n"},
        {"GRUPTREE_new", "GRUPTREE\n 'M1' 'PLAT' /\n 'M2' 'PLAT' /\n/\n"},
        {"GRUPTREE_move", "GRUPTREE\n 'M1' 'M2' /\n/\n"},
        {"GCONPROD", "GCONPROD\n 'G1' ORAT 1000 /\n/\n"},
        {"WEFAC", "WEFAC\n 'P1' 0.8 /\n/\n"},
        {"GEFAC", "GEFAC\n 'G1' 0.9 /\n/\n"},
        {"WELTARG", "WELTARG\n 'P1' ORAT 77 /\n/\n"},
        {"WPIMULT", "WPIMULT\n 'P1' 2.0 /\n/\n"},
        {"WLIST", "WLIST\n '*L1' NEW P1 /\n/\n"},
        {"UDQ_A", "UDQ\n ASSIGN WUX 3.0 /\n/\n"},
        {"UDQ_D", "UDQ\n DEFINE FUY FOPR * 2 /\n/\n"},
        {"ACTIONX", "ACTIONX\n A1 1 /\n FOPR > 0 /\n/\nWELOPEN\n '?' SHUT /\n/\nENDACTIO\n"},
        {"TUNING", "TUNING\n 0.5 5 /\n/\n/\n"},
        {"RPTRST", "RPTRST\n BASIC=2 /\n"},
    };
}

// Broad alphabet: one or two snippets per SCHEDULE handler keyword, valid after prelude_wells().
inline std::vector<Ev> broad_alphabet() {
    std::vector<Ev> v = {
        {"DATES", "", true},
        {"WELSPECS_new", "WELSPECS\n 'P3' 'G1' 1 3 1* OIL /\n/\n"},
        {"WELSPECS_regroup", "WELSPECS\n 'P1' 'G2' 1 1 1* OIL /\n/\n"},
        {"COMPDAT_re", "COMPDAT\n 'P1' 1 1 2 2 OPEN 1* 25.0 0.3 /\n/\n"},
        {"COMPDAT_new", "COMPDAT\n 'P2' 2 2 3 3 OPEN 1* 1* 0.25 3* Z /\n/\n"},
        {"COMPLUMP", "COMPLUMP\n 'P1' 1 1 1 2 1 /\n 'P1' 1 1 3 3 2 /\n/\n"},
        {"COMPORD", "COMPORD\n 'P1' INPUT /\n/\n"},
        {"CSKIN", "CSKIN\n 'P1' 1 1 1 3 2.5 /\n/\n"},
        {"WELSEGS", "WELSEGS\n 'P2' 2005 0 1* INC HF- /\n 2 2 1 1 10 10 0.2 0.0001 /\n 3 3 1 2 10 10 0.2 0.0001 /\n/\nCOMPSEGS\n 'P2' /\n 2 2 1 1 0 10 /\n 2 2 2 1 10 20 /\n/\n"},
        {"WSEGVALV", "WELSEGS\n 'P2' 2005 0 1* INC HF- /\n 2 2 1 1 10 10 0.2 0.0001 /\n 3 3 1 2 10 10 0.2 0.0001 /\n/\nCOMPSEGS\n 'P2' /\n 2 2 1 1 0 10 /\n 2 2 2 1 10 20 /\n/\nWSEGVALV\n 'P2' 3 0.7 0.002 /\n/\n"},
        {"WSEGSICD", "WELSEGS\n 'P2' 2005 0 1* INC HF- /\n 2 2 1 1 10 10 0.2 0.0001 /\n 3 3 1 2 10 10 0.2 0.0001 /\n/\nCOMPSEGS\n 'P2' /\n 2 2 1 1 0 10 /\n 2 2 2 1 10 20 /\n/\nWSEGSICD\n 'P2' 3 3 0.001 1.2 /\n/\n"},
        {"WSEGAICD", "WELSEGS\n 'P2' 2005 0 1* INC HF- /\n 2 2 1 1 10 10 0.2 0.0001 /\n 3 3 1 2 10 10 0.2 0.0001 /\n/\nCOMPSEGS\n 'P2' /\n 2 2 1 1 0 10 /\n 2 2 2 1 10 20 /\n/\nWSEGAICD\n 'P2' 3 3 0.001 1.2 /\n/\n"},
        // the same MSW keywords as separate events: segments defined at one step, devices given at a later one
        {"MSW_define", "WELSEGS\n 'P2' 2005 0 1* INC HF- /\n 2 2 1 1 10 10 0.2 0.0001 /\n 3 3 1 2 10 10 0.2 0.0001 /\n/\nCOMPSEGS\n 'P2' /\n 2 2 1 1 0 10 /\n 2 2 2 1 10 20 /\n/\n"},
        {"WSEGVALV_only", "WSEGVALV\n 'P2' 3 0.7 0.002 /\n/\n"},
        {"WSEGSICD_only", "WSEGSICD\n 'P2' 3 3 0.001 1.2 /\n/\n"},
        {"WSEGAICD_only", "WSEGAICD\n 'P2' 3 3 0.001 1.2 /\n/\n"},
        {"WSEGITER", "WSEGITER\n 30 6 0.4 2.0 /\n"},
        {"DRSDT", "DRSDT\n 0.01 /\n"},
        {"DRVDT", "DRVDT\n 0.02 /\n"},
        {"DRSDTR", "DRSDTR\n 0.01 /\n"},
        {"DRVDTR", "DRVDTR\n 0.02 /\n"},
        {"DRSDTCON", "DRSDTCON\n 0.05 /\n"},
        {"VAPPARS", "VAPPARS\n 2 0.1 /\n"},
        {"FBHPDEF", "FBHPDEF\n 5.0 500.0 /\n"},
        {"GCONINJE", "GCONINJE\n 'G2' WATER RATE 500 /\n/\n"},
        {"GCONPROD", "GCONPROD\n 'G1' ORAT 1000 /\n/\n"},
        {"GCONPROD_f", "GCONPROD\n 'PLAT' ORAT 3000 3* RATE /\n/\n"},
        {"GCONSALE", "GCONSALE\n 'G1' 10000 20000 5000 RATE /\n/\n"},
        {"GCONSUMP", "GCONSUMP\n 'G1' 20 50 /\n/\n"},
        {"GECON", "GECON\n 'G1' 10 /\n/\n"},
        {"GEFAC", "GEFAC\n 'G1' 0.9 /\n/\n"},
        {"GLIFTOPT", "GLIFTOPT\n 'G1' 1000 2000 /\n/\n"},
        {"LIFTOPT", "LIFTOPT\n 100 0.1 10 /\n"},
        {"WLIFTOPT", "WLIFTOPT\n 'P1' YES 500 1.0 10 /\n/\n"},
        {"GPMAINT", "GPMAINT\n 'G2' WINJ 1 1* 250 10 10 /\n/\n"},
        {"GRUPNET", "GRUPNET\n 'G1' 20 3 /\n/\n"},
        {"GRUPTREE", "GRUPTREE\n 'G3' 'G1' /\n/\n"},
        {"GRUPTREE_move", "GRUPTREE\n 'G2' 'G1' /\n/\n"},
        {"GRUPTREE_newpair", "GRUPTREE\n 'M1' 'PLAT' /\n 'M2' 'PLAT' /\n/\n"},
        {"GRUPTREE_move_M1", "GRUPTREE\n 'M1' 'M2' /\n/\n"},
        {"GRUPTREE_back_M1", "GRUPTREE\n 'M1' 'PLAT' /\n/\n"},
        {"GUIDERAT", "GUIDERAT\n 0 OIL 1 0.5 1 1 0 0 YES 0.5 /\n"},
        {"LINCOM", "LINCOM\n 1 0.5 0.1 /\n"},
        {"MESSAGES", "MESSAGES\n 10 10 10 10 10 10 /\n"},
        {"MULTFLT", "MULTFLT\n 'F1' 0.5 /\n/\n"},
        {"MULTPV", "MULTPV\n 27*1.1 /\n"},
        {"MULTX", "MULTX\n 27*0.5 /\n"},
        {"MULTY", "MULTY\n 27*0.6 /\n"},
        {"MULTZ", "MULTZ\n 27*0.7 /\n"},
        {"BOX_MULTX", "BOX\n 1 2 1 2 1 1 /\nMULTX\n 4*0.25 /\nENDBOX\n"},
        {"MULTSIG", "MULTSIG\n 0.5 /\n"},
        {"NETBALAN", "NETBALAN\n 0.5 0.01 5 /\n"},
        {"NEXTSTEP", "NEXTSTEP\n 5 YES /\n"},
        {"NEXT", "NEXT\n 3 NO /\n"},
        {"BRANPROP", "BRANPROP\n 'G1' 'PLAT' 1 /\n 'G2' 'PLAT' 9999 /\n/\nNODEPROP\n 'PLAT' 20 /\n 'G1' 1* NO /\n 'G2' 1* NO /\n/\n"},
        {"NODEPROP", "BRANPROP\n 'G1' 'PLAT' 9999 /\n/\nNODEPROP\n 'PLAT' 25 /\n 'G1' 1* YES /\n/\n"},
        {"NUPCOL", "NUPCOL\n 5 /\n"},
        {"RPTONLY", "RPTONLY\n"},
        {"RPTONLYO", "RPTONLYO\n"},
        {"RPTRST", "RPTRST\n BASIC=2 /\n"},
        {"RPTRST_f", "RPTRST\n BASIC=3 FREQ=2 /\n"},
        {"RPTSCHED", "RPTSCHED\n WELLS=2 FIP=1 /\n"},
        {"SAVE", "SAVE\n"},
        {"SUMTHIN", "SUMTHIN\n 10 /\n"},
        {"TUNING", "TUNING\n 0.5 5 /\n/\n/\n"},
        {"UDQ_assign", "UDQ\n ASSIGN WUX 3.0 /\n ASSIGN FUZ 4 /\n/\n"},
        {"UDQ_define", "UDQ\n DEFINE FUY FOPR * 2 /\n DEFINE WUY WOPR + 1 /\n UNITS WUY SM3/DAY /\n/\n"},
        {"UDQ_update", "UDQ\n DEFINE FUY FOPR * 2 /\n UPDATE FUY OFF /\n/\n"},
        {"UDQ_uda", "UDQ\n ASSIGN WUX 3.0 /\n/\nWCONPROD\n 'P1' OPEN ORAT WUX 4* 50 /\n/\n"},
        {"ACTIONX", "ACTIONX\n A1 1 /\n FOPR > 0 /\n/\nWELOPEN\n '?' SHUT /\n/\nENDACTIO\n"},
        {"ACTIONX_2", "ACTIONX\n A2 3 10 /\n WOPR 'P*' > 1 AND FWCT < 0.5 /\n/\nWELTARG\n '?' ORAT 10 /\n/\nENDACTIO\n"},
        {"VFPPROD_blank_alq", "VFPPROD\n 2 2000 OIL WCT GOR THP ' ' METRIC BHP /\n 1 100 /\n 10 50 /\n 0 0.5 /\n 100 200 /\n 0 /\n 1 1 1 1 100 120 /\n 1 1 2 1 101 121 /\n 1 2 1 1 102 122 /\n 1 2 2 1 103 123 /\n 2 1 1 1 104 124 /\n 2 1 2 1 105 125 /\n 2 2 1 1 106 126 /\n 2 2 2 1 107 127 /\n"},
        {"VFPPROD", "VFPPROD\n 3 2000 OIL WCT GOR THP GRAT METRIC BHP /\n 1 100 /\n 10 50 /\n 0 0.5 /\n 100 200 /\n 0 /\n 1 1 1 1 100 120 /\n 1 1 2 1 101 121 /\n 1 2 1 1 102 122 /\n 1 2 2 1 103 123 /\n 2 1 1 1 104 124 /\n 2 1 2 1 105 125 /\n 2 2 1 1 106 126 /\n 2 2 2 1 107 127 /\n"},
        {"VFPINJ", "VFPINJ\n 4 2000 WAT THP METRIC BHP /\n 1 100 /\n 10 50 /\n 1 100 120 /\n 2 110 130 /\n"},
        {"WCONHIST", "WCONHIST\n 'P1' OPEN ORAT 90 10 1000 /\n/\n"},
        {"WCONINJE", "WCONINJE\n 'I1' WATER OPEN RATE 250 1* 450 /\n/\n"},
        {"WCONINJE_gas", "WCONINJE\n 'I1' GAS OPEN RATE 25000 1* 450 /\n/\n"},
        {"WCONINJH", "WCONINJH\n 'I1' WATER OPEN 180 /\n/\n"},
        {"WCONPROD", "WCONPROD\n 'P1' OPEN LRAT 100 50 1* 140 1* 40 /\n/\n"},
        {"WCONPROD_shut", "WCONPROD\n 'P2' SHUT /\n/\n"},
        {"WDFAC", "WDFAC\n 'P1' 1e-5 /\n/\n"},
        {"WDFACCOR", "WDFACCOR\n 'P1' 1e-5 -1.0 0.0 /\n/\n"},
        {"WECON", "WECON\n 'P1' 10 1* 0.9 2* WELL /\n/\n"},
        {"WEFAC", "WEFAC\n 'P1' 0.8 /\n/\n"},
        {"WELOPEN_shut", "WELOPEN\n 'P1' SHUT /\n/\n"},
        {"WELOPEN_conn", "WELOPEN\n 'P1' SHUT 0 0 2 /\n/\n"},
        {"WELOPEN_open", "WELOPEN\n 'P*' OPEN /\n/\n"},
        {"WELOPEN_stop", "WELOPEN\n 'P2' STOP /\n/\n"},
        {"WELPI", "WELPI\n 'P1' 5 /\n/\n"},
        {"WELTARG", "WELTARG\n 'P1' ORAT 77 /\n/\n"},
        {"WELTARG_bhp", "WELTARG\n 'I1' BHP 420 /\n/\n"},
        {"WFOAM", "WFOAM\n 'I1' 0.1 /\n/\n"},
        {"WGRUPCON", "WGRUPCON\n 'P1' YES 1.5 OIL /\n/\n"},
        {"WHISTCTL", "WHISTCTL\n LRAT /\n"},
        {"WINJMULT", "WINJMULT\n 'I1' 400 0.1 /\n/\n"},
        {"WINJTEMP", "WINJTEMP\n 'I1' 1* 40 /\n/\n"},
        {"WTEMP", "WTEMP\n 'I1' 35 /\n/\n"},
        {"WLIST_new", "WLIST\n '*L1' NEW P1 P2 /\n/\n"},
        {"WLIST_add", "WLIST\n '*L1' NEW P1 /\n '*L1' ADD I1 /\n/\n"},
        {"WLIST_use", "WLIST\n '*L2' NEW P1 P2 /\n/\nWELOPEN\n '*L2' SHUT /\n/\n"},
        {"WMICP", "WMICP\n 'I1' 0.1 0.2 0.3 /\n/\n"},
        {"WPAVE", "WPAVE\n 0.5 0.5 WELL ALL /\n"},
        {"WWPAVE", "WWPAVE\n 'P1' 0.25 0.75 RES OPEN /\n/\n"},
        {"WPAVEDEP", "WPAVEDEP\n 'P1' 2010 /\n/\n"},
        {"WPIMULT", "WPIMULT\n 'P1' 2.0 /\n/\n"},
        {"WPIMULT_k", "WPIMULT\n 'P1' 3.0 0 0 2 /\n/\n"},
        {"WPOLYMER", "WPOLYMER\n 'I1' 1.0 0.1 /\n/\n"},
        {"WRFT", "WRFT\n 'P1' /\n/\n"},
        {"WRFTPLT", "WRFTPLT\n 'P1' YES NO NO /\n/\n"},
        {"WSALT", "WSALT\n 'I1' 10 /\n/\n"},
        {"WSOLVENT", "WSOLVENT\n 'I1' 0.5 /\n/\n"},
        {"WTEST", "WTEST\n 'P1' 10 PE 3 /\n/\n"},
        {"WTMULT", "WTMULT\n 'P1' ORAT 0.5 /\n/\n"},
        {"WTRACER", "WTRACER\n 'I1' 'T1' 0.5 /\n/\n"},
        {"WVFPDP", "WVFPDP\n 'P1' 2.5 0.9 /\n/\n"},
        {"WVFPEXP", "WVFPEXP\n 'P1' EXP NO YES1 /\n/\n"},
        {"WINJCLN", "WINJCLN\n 'I1' 0.5 /\n/\n"},
        {"WINJDAM", "WINJDAM\n 'I1' 3 3 1 0.1 PERM 0.5 0.1 /\n/\n"},
        {"WINJFCNC", "WINJFCNC\n 'I1' 1.0 1000 /\n/\n"},
        {"BCPROP", "BCPROP\n 1 FREE /\n/\n"},
        {"SOURCE", "SOURCE\n 1 1 1 GAS 0.01 /\n/\n"},
        {"AQUFLUX_like", "AQUCT\n 1 2000 1.5 100 0.3 3.0e-5 330 10 360 1 1 /\n"},
        {"EXIT", "EXIT\n 2 /\n"},
    };
    return v;
}

} // namespace schedgen
