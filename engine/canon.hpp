// canon.hpp - CanonSerializer: structural canonical dump of any opm-common object, driven by the
// classes' own serializeOp templates (DESIGN.md 2.5 / App. A).  Unordered containers are sorted,
// smart pointers are content, and three representation-only things are normalised:
// UnitSystem (dimension cache + use counter), DeckItem (raw/SI flip flag), KeywordLocation.
#pragma once
#include <string>
#include <vector>
#include <map>
#include <unordered_map>
#include <set>
#include <unordered_set>
#include <optional>
#include <variant>
#include <memory>
#include <array>
#include <bitset>
#include <chrono>
#include <sstream>
#include <algorithm>
#include <typeinfo>
#include <cstring>
#include <opm/input/eclipse/Units/UnitSystem.hpp>
#include <opm/input/eclipse/Deck/DeckItem.hpp>
#include <opm/input/eclipse/Deck/UDAValue.hpp>
#include <opm/input/eclipse/Utility/Typetools.hpp>
#include <opm/common/OpmLog/KeywordLocation.hpp>
namespace vf {
template<class T> struct is_vec : std::false_type {}; template<class T,class A> struct is_vec<std::vector<T,A>> : std::true_type {};
template<class T> struct is_opt : std::false_type {}; template<class T> struct is_opt<std::optional<T>> : std::true_type {};
template<class T> struct is_var : std::false_type {}; template<class... T> struct is_var<std::variant<T...>> : std::true_type {};
template<class T> struct is_tup : std::false_type {}; template<class... T> struct is_tup<std::tuple<T...>> : std::true_type {}; template<class A,class B> struct is_tup<std::pair<A,B>> : std::true_type {};
template<class T> struct is_sp : std::false_type {}; template<class T> struct is_sp<std::shared_ptr<T>> : std::true_type {}; template<class T,class D> struct is_sp<std::unique_ptr<T,D>> : std::true_type {};
template<class T> struct is_omap : std::false_type {}; template<class K,class V,class C,class A> struct is_omap<std::map<K,V,C,A>> : std::true_type {};
template<class T> struct is_umap : std::false_type {}; template<class K,class V,class H,class E,class A> struct is_umap<std::unordered_map<K,V,H,E,A>> : std::true_type {};
template<class T> struct is_oset : std::false_type {}; template<class K,class C,class A> struct is_oset<std::set<K,C,A>> : std::true_type {};
template<class T> struct is_uset : std::false_type {}; template<class K,class H,class E,class A> struct is_uset<std::unordered_set<K,H,E,A>> : std::true_type {};
template<class T> struct is_arr : std::false_type {}; template<class T,std::size_t N> struct is_arr<std::array<T,N>> : std::true_type {};
template<class T> struct is_bits : std::false_type {}; template<std::size_t N> struct is_bits<std::bitset<N>> : std::true_type {};
template<class T> struct is_tp : std::false_type {}; template<class C,class D> struct is_tp<std::chrono::time_point<C,D>> : std::true_type {};
struct Canon;
template<class T, class = void> struct has_sop : std::false_type {};
template<class T> struct has_sop<T, std::void_t<decltype(std::declval<T&>().serializeOp(std::declval<Canon&>()))>> : std::true_type {};
struct Canon {
  std::string out;
  int depth = 0;          // nesting of operator() calls; members of the root object are at depth 1
  int member = 0;         // running index of root members (marker "\x1f<idx>:" precedes each)
  bool isSerializing() const { return true; }
  template<class T> void operator()(const T& d) {
    using U = std::remove_cv_t<std::remove_reference_t<T>>;
    struct Depth { int& d; Depth(int& x) : d(x) { ++d; } ~Depth() { --d; } } guard(depth);
    if (depth == 2) { out += '\x1f'; out += std::to_string(member++); out += ':'; }
    if constexpr (std::is_same_v<U, Opm::UnitSystem>) { out += "US(" + d.getName() + ")"; }
    else if constexpr (std::is_same_v<U, Opm::DeckItem>) {
      out += "DI(" + d.name() + ":" + std::to_string((int)d.getType()) + ":";
      const auto& st = d.getValueStatus(); for (auto x : st) out += std::to_string((int)x);
      out += ":";
      bool has_dim = true;
      for (size_t i=0;i<d.data_size();++i) { if (!d.hasValue(i)) { out += "_,"; continue; }
        switch (d.getType()) {
          case Opm::type_tag::integer: out += std::to_string(d.template get<int>(i)); break;
          case Opm::type_tag::fdouble: { char b[40]; double v; if (has_dim) { try { v = d.getSIDouble(i); } catch (const std::exception&) { has_dim = false; v = d.template get<double>(i); } } else v = d.template get<double>(i); snprintf(b,sizeof b,"%.17g", v); out += b; break; }
          case Opm::type_tag::string: out += "\"" + d.template get<std::string>(i) + "\""; break;
          case Opm::type_tag::raw_string: out += "r\"" + d.template get<Opm::RawString>(i) + "\""; break;
          case Opm::type_tag::uda: { (*this)(d.template get<Opm::UDAValue>(i)); break; }
          default: out += "?"; }
        out += ","; }
      out += ")"; }
    else if constexpr (std::is_same_v<U, Opm::KeywordLocation>) { out += "@"; }   // provenance (file/line) carries no meaning
    else if constexpr (std::is_same_v<U, std::string>) { out += "\"" + d + "\""; }
    else if constexpr (std::is_same_v<U, bool>) { out += d ? "T" : "F"; }
    else if constexpr (std::is_enum_v<U>) { out += "e" + std::to_string(static_cast<long long>(d)); }
    else if constexpr (std::is_integral_v<U>) { out += std::to_string(d); }
    else if constexpr (std::is_floating_point_v<U>) { char b[40]; snprintf(b, sizeof b, "%.17g", (double)d); out += b; }
    else if constexpr (is_bits<U>::value) { out += "b" + d.to_string(); }
    else if constexpr (is_tp<U>::value) { out += "t" + std::to_string(d.time_since_epoch().count()); }
    else if constexpr (is_sp<U>::value) { if (d) { out += "&"; (*this)(*d); } else out += "null"; }
    else if constexpr (is_opt<U>::value) { if (d) { out += "?"; (*this)(*d); } else out += "none"; }
    else if constexpr (is_var<U>::value) { out += "v" + std::to_string(d.index()) + ":"; std::visit([this](const auto& x){ (*this)(x); }, d); }
    else if constexpr (is_tup<U>::value) { out += "("; std::apply([this](const auto&... x){ ((void)((*this)(x), out += ","), ...); }, d); out += ")"; }
    else if constexpr (is_vec<U>::value) { out += "["; for (const auto& x : d) { auto y = x; (*this)(static_cast<const typename U::value_type&>(y)); out += ","; } out += "]"; }
    else if constexpr (is_arr<U>::value) { out += "["; for (const auto& x : d) { (*this)(x); out += ","; } out += "]"; }
    else if constexpr (is_omap<U>::value || is_oset<U>::value) { out += "{"; for (const auto& x : d) { (*this)(x); out += ","; } out += "}"; }
    else if constexpr (is_umap<U>::value || is_uset<U>::value) { std::vector<std::string> parts; for (const auto& x : d) { Canon c; c.depth = 100; c(x); parts.push_back(c.out); } std::sort(parts.begin(), parts.end()); out += "{"; for (auto& p : parts) { out += p; out += ","; } out += "}"; }
    else if constexpr (has_sop<U>::value) { out += "<"; const_cast<U&>(d).serializeOp(*this); out += ">"; }
    else { static_assert(std::is_trivially_copyable_v<U>, "unhandled type in Canon"); out += "x"; const unsigned char* p = reinterpret_cast<const unsigned char*>(&d); char b[3]; for (size_t i=0;i<sizeof(U);++i){ snprintf(b,3,"%02x",p[i]); out+=b; } }
  }
};
template<class T> std::string canon(const T& x){ Canon c; c(x); return c.out; }
// index of the first root member (in serializeOp order) in which two canonical strings differ, -1 if equal
inline int first_diff_member(const std::string& a, const std::string& b) {
  size_t p = 0; while (p < a.size() && p < b.size() && a[p] == b[p]) ++p;
  if (p == a.size() && p == b.size()) return -1;
  size_t q = a.rfind('\x1f', p < a.size() ? p : a.size() - 1);
  if (q == std::string::npos) return 0;
  return std::atoi(a.c_str() + q + 1);
}
}
