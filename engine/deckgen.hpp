// deckgen.hpp — keyword-metadata driven deck instance generator (catalogue regime of
// C01/C19/C20/C02) and the Deck observation used by those checks.
#pragma once
#include "vf.hpp"
#include <opm/input/eclipse/Deck/Deck.hpp>
#include <opm/input/eclipse/Deck/DeckItem.hpp>
#include <opm/input/eclipse/Deck/DeckKeyword.hpp>
#include <opm/input/eclipse/Deck/DeckRecord.hpp>
#include <opm/input/eclipse/Deck/UDAValue.hpp>
#include <opm/input/eclipse/Parser/ErrorGuard.hpp>
#include <opm/input/eclipse/Parser/InputErrorAction.hpp>
#include <opm/input/eclipse/Parser/ParseContext.hpp>
#include <opm/input/eclipse/Parser/Parser.hpp>
#include <opm/input/eclipse/Parser/ParserEnums.hpp>
#include <opm/input/eclipse/Parser/ParserItem.hpp>
#include <opm/input/eclipse/Parser/ParserKeyword.hpp>
#include <opm/input/eclipse/Parser/ParserRecord.hpp>
#include <opm/input/eclipse/Utility/Typetools.hpp>

namespace deckgen {

// ------------------------------------------------------------ observation ---
// Everything the property counts as "the Deck": keyword names in order, per record per item
// name, type, size, each value bit for bit, default flags, SI data.  No locations.
inline std::string obs_item(const Opm::DeckItem& it, int digits = 0) {
    std::string o = it.name() + ":" + std::to_string((int)it.getType()) + ":" + std::to_string(it.data_size()) + "[";
    bool has_dim = true;
    for (size_t i = 0; i < it.data_size(); ++i) {
        o += it.defaultApplied(i) ? "d" : "v";
        if (!it.hasValue(i)) { o += "_,"; continue; }
        auto num = [&](double x) { if (digits == 0) { char b[24]; std::snprintf(b, sizeof b, "%016llx", (unsigned long long)vf::dbits(x)); return std::string(b); } char b[40]; std::snprintf(b, sizeof b, "%.*e", digits - 1, x); return std::string(b); };
        switch (it.getType()) {
        case Opm::type_tag::integer: o += std::to_string(it.get<int>(i)); break;
        case Opm::type_tag::fdouble: {
            o += num(it.get<double>(i));
            if (has_dim) { try { o += "/" + num(it.getSIDouble(i)); } catch (const std::exception&) { has_dim = false; } }
            break; }
        case Opm::type_tag::string: o += "\"" + it.get<std::string>(i) + "\""; break;
        case Opm::type_tag::raw_string: o += "r\"" + static_cast<const std::string&>(it.get<Opm::RawString>(i)) + "\""; break;
        case Opm::type_tag::uda: { const auto& u = it.get<Opm::UDAValue>(i); if (u.is<double>()) { o += "u" + num(u.get<double>()); try { o += "/" + num(u.getSI()); } catch (const std::exception&) {} } else o += "u\"" + u.get<std::string>() + "\""; break; }
        default: o += "?";
        }
        o += ",";
    }
    return o + "]";
}
inline std::string obs_keyword(const Opm::DeckKeyword& kw, int digits = 0) {
    std::string o = kw.name() + (kw.isDataKeyword() ? "{D" : "{") + (kw.isDoubleRecordKeyword() ? "2" : "");
    for (const auto& rec : kw) { o += "("; for (const auto& it : rec) o += obs_item(it, digits) + ";"; o += ")"; }
    return o + "}";
}
inline std::string obs_deck(const Opm::Deck& d, int digits = 0) { std::string o; for (const auto& kw : d) o += obs_keyword(kw, digits) + "\n"; return o; }

// --------------------------------------------------------------- instances ---
struct Instance {
    std::string name, cls;
    std::vector<std::string> lines;      // line 0: keyword name; then record / terminator lines
    bool freetext = false;               // raw-string / code / TITLE: token level rewrites not applicable
    std::string prelude;                 // keywords that must precede (size keyword), already rendered
    std::string text() const { std::string t = prelude; for (auto& l : lines) t += l + "\n"; return t; }
};

inline Opm::ParseContext lenient_context() {
    Opm::ParseContext pc;
    pc.update(Opm::InputErrorAction::THROW_EXCEPTION);
    pc.update(Opm::ParseContext::PARSE_MISSING_DIMS_KEYWORD, Opm::InputErrorAction::IGNORE);
    pc.update(Opm::ParseContext::PARSE_MISSING_INCLUDE, Opm::InputErrorAction::THROW_EXCEPTION);
    pc.update(Opm::ParseContext::PARSE_INVALID_KEYWORD_COMBINATION, Opm::InputErrorAction::IGNORE);
    pc.update(Opm::ParseContext::PARSE_MISSING_SECTIONS, Opm::InputErrorAction::IGNORE);
    return pc;
}

inline std::string item_text(const Opm::ParserItem& it, int variant) {
    std::string one;
    switch (it.dataType()) {
    case Opm::type_tag::integer: one = variant == 1 ? "3" : "7"; break;
    case Opm::type_tag::fdouble: one = variant == 1 ? "0.5" : "1.25"; break;
    case Opm::type_tag::string: one = variant == 0 ? "'ABC'" : variant == 1 ? "'A B'" : variant == 2 ? "'A/B'" : "'A--B'"; break;   // 2,3: terminator / comment characters inside quotes
    case Opm::type_tag::raw_string: one = "RAW"; break;
    case Opm::type_tag::uda: one = variant == 1 ? "'WUX'" : "2.5"; break;
    default: one = "1";
    }
    if (it.sizeType() == Opm::ParserItem::item_size::ALL) return one + " " + one + " " + one + " " + one + " " + one;
    return one;
}
inline std::string rec_text(const Opm::ParserRecord& r, int variant) { std::string s = " "; for (const auto& it : r) s += item_text(it, variant) + " "; return s + "/"; }

// Generates one instance per deck name known to the parser (variant 0/1 = value set).
// Instances that do not parse to exactly one keyword are returned in `rejected`.
inline std::vector<Instance> catalogue(const Opm::Parser& parser, int variant, std::vector<std::string>* rejected = nullptr) {
    using namespace Opm;
    std::vector<Instance> out;
    ParseContext pc = lenient_context();
    for (const auto& name : parser.getAllDeckNames()) {
        if (!parser.isRecognizedKeyword(name)) continue;
        if (name == "INCLUDE" || name == "PATHS" || name == "PYINPUT" || name == "IMPORT" || name == "END" || name == "ENDINC" || name == "SKIP" || name == "ENDSKIP" || name == "SKIP100" || name == "SKIP300") { if (rejected) rejected->push_back(name + ":consumed-by-parser"); continue; }
        const auto& kw = parser.getParserKeywordFromDeckName(name);
        Instance in; in.name = name;
        in.cls = ParserKeywordSizeEnum2String(kw.getSizeType());
        if (kw.isTableCollection()) in.cls += "+TABCOLL";
        if (kw.isDataKeyword()) in.cls += "+DATA";
        if (kw.rawStringKeyword()) in.cls += "+RAW";
        if (kw.isCodeKeyword()) in.cls += "+CODE";
        if (kw.isAlternatingKeyword()) in.cls += "+ALT";
        if (kw.isDoubleRecordKeyword()) in.cls += "+DBL";
        in.freetext = kw.rawStringKeyword() || kw.isCodeKeyword() || name == "TITLE";
        in.lines.push_back(name);
        try {
            size_t nrec = std::distance(kw.begin(), kw.end());
            auto st = kw.getSizeType();
            if (nrec == 0 && !kw.isCodeKeyword()) { /* flag keyword */ }
            else if (kw.isCodeKeyword()) { in.lines.push_back("x = 1"); in.lines.push_back(kw.codeEnd()); }
            else if (st == FIXED || st == SPECIAL_CASE_ROCK) { size_t n = (st == FIXED) ? kw.getFixedSize() : 1; for (size_t i = 0; i < n; ++i) in.lines.push_back(rec_text(kw.getRecord(std::min(i, nrec - 1)), variant)); }
            else if (st == SLASH_TERMINATED || st == UNKNOWN) { in.lines.push_back(rec_text(kw.getRecord(0), variant)); in.lines.push_back(rec_text(kw.getRecord(std::min<size_t>(1, nrec - 1)), variant)); in.lines.push_back("/"); }
            else if (st == DOUBLE_SLASH_TERMINATED) { in.lines.push_back(rec_text(kw.getRecord(0), variant)); in.lines.push_back(rec_text(kw.getRecord(std::min<size_t>(1, nrec - 1)), variant)); in.lines.push_back("/"); in.lines.push_back("/"); }
            else if (st == OTHER_KEYWORD_IN_DECK) {
                const auto& ks = kw.getKeywordSize();
                int n = 1;
                try { const auto& skw = parser.getKeyword(ks.keyword()); n = skw.getRecord(0).get(ks.item()).getDefault<int>() + ks.size_shift(); } catch (...) { n = 1; }
                if (n < 1) n = 1; if (n > 3) n = 3;
                if (kw.isTableCollection()) { for (int t = 0; t < n; ++t) { in.lines.push_back(rec_text(kw.getRecord(0), variant)); in.lines.push_back(rec_text(kw.getRecord(0), variant)); in.lines.push_back("/"); } }
                else if (kw.isAlternatingKeyword()) { for (int t = 0; t < n; ++t) for (size_t i = 0; i < nrec; ++i) in.lines.push_back(rec_text(kw.getRecord(i), variant)); }
                else for (int t = 0; t < n; ++t) in.lines.push_back(rec_text(kw.getRecord(std::min<size_t>(t, nrec - 1)), variant));
            }
        } catch (const std::exception& e) { if (rejected) rejected->push_back(name + ":generator:" + e.what()); continue; }
        try {
            ErrorGuard eg;
            auto d = parser.parseString(in.text(), pc, eg);
            eg.clear();
            if (d.size() == 1) out.push_back(in);
            else if (rejected) rejected->push_back(name + ":parses-to-" + std::to_string(d.size()) + "-keywords");
        } catch (const std::exception& e) { if (rejected) rejected->push_back(name + ":canonical-instance-rejected"); }
    }
    return out;
}

// split a record line into tokens (quotes respected); returns false if the line is not tokenizable
inline std::vector<std::string> tokens(const std::string& line) {
    std::vector<std::string> t; std::string cur; bool q = false;
    for (char c : line) {
        if (q) { cur += c; if (c == '\'') q = false; continue; }
        if (c == '\'') { cur += c; q = true; continue; }
        if (c == ' ' || c == '\t') { if (!cur.empty()) { t.push_back(cur); cur.clear(); } continue; }
        cur += c;
    }
    if (!cur.empty()) t.push_back(cur);
    return t;
}

} // namespace deckgen
