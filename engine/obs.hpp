// obs.hpp — "query sweep": what the public API answers about a schedule state.
// Complements canon() (which walks serializeOp): a member that is forgotten in
// serializeOp/operator== still shows up here through its getter.
#pragma once
#include "canon.hpp"
#include <opm/input/eclipse/Schedule/Action/ActionX.hpp>
#include <opm/input/eclipse/Schedule/Action/Actions.hpp>
#include <opm/input/eclipse/Schedule/Group/Group.hpp>
#include <opm/input/eclipse/Schedule/Group/GTNode.hpp>
#include <opm/input/eclipse/Schedule/MSW/WellSegments.hpp>
#include <opm/input/eclipse/Schedule/MSW/Segment.hpp>
#include <opm/input/eclipse/Schedule/Schedule.hpp>
#include <opm/input/eclipse/Schedule/ScheduleState.hpp>
#include <opm/input/eclipse/Schedule/Tuning.hpp>
#include <opm/input/eclipse/Schedule/UDQ/UDQConfig.hpp>
#include <opm/input/eclipse/Schedule/UDQ/UDQActive.hpp>
#include <opm/input/eclipse/Schedule/Well/Connection.hpp>
#include <opm/input/eclipse/Schedule/Well/Well.hpp>
#include <opm/input/eclipse/Schedule/Well/WellConnections.hpp>
#include <opm/input/eclipse/Schedule/Well/NameOrder.hpp>
#include <opm/input/eclipse/Schedule/Well/WList.hpp>
#include <opm/input/eclipse/Schedule/Well/WListManager.hpp>
#include <opm/input/eclipse/Schedule/Network/ExtNetwork.hpp>
#include <opm/input/eclipse/Schedule/RSTConfig.hpp>
#include <opm/input/eclipse/Schedule/Events.hpp>

namespace obs {

inline std::string d(double x) { char b[40]; std::snprintf(b, sizeof b, "%.17g", x); return b; }

inline std::string connection(const Opm::Connection& c) {
    std::string o = "c(" + std::to_string(c.getI()) + "," + std::to_string(c.getJ()) + "," + std::to_string(c.getK());
    o += " st" + std::to_string((int)c.state()) + " dir" + std::to_string((int)c.dir()) + " cf" + d(c.CF()) + " kh" + d(c.Kh()) + " rw" + d(c.rw()) + " r0" + d(c.r0()) + " re" + d(c.re());
    o += " skin" + d(c.skinFactor()) + " d" + d(c.dFactor()) + " depth" + d(c.depth()) + " sat" + std::to_string(c.satTableId()) + " cn" + std::to_string(c.complnum());
    o += " seg" + std::to_string(c.segment()) + " wpi" + d(c.wpimult()) + " sort" + std::to_string(c.sort_value()) + " kind" + std::to_string((int)c.kind()) + " len" + d(c.connectionLength()) + " Ke" + d(c.Ke()) + ")";
    return o;
}

inline std::string well(const Opm::Well& w) {
    std::string o = "W[" + w.name() + " grp=" + w.groupName() + " st=" + std::to_string((int)w.getStatus()) + " prod=" + (w.isProducer() ? "1" : "0");
    o += " head=" + std::to_string(w.getHeadI()) + "," + std::to_string(w.getHeadJ()) + " ref=" + (w.hasRefDepth() ? d(w.getRefDepth()) : "-") + " efac=" + d(w.getEfficiencyFactor());
    o += " phase=" + std::to_string((int)w.getPreferredPhase()) + " xflow=" + (w.getAllowCrossFlow() ? "1" : "0") + " autoshut=" + (w.getAutomaticShutIn() ? "1" : "0");
    o += " gc=" + std::string(w.isAvailableForGroupControl() ? "1" : "0") + " gr=" + d(w.getGuideRate()) + " grp=" + std::to_string((int)w.getGuideRatePhase()) + " grs=" + d(w.getGuideRateScalingFactor());
    o += " drad=" + d(w.getDrainageRadius()) + " solv=" + d(w.getSolventFraction()) + " seqI=" + std::to_string(w.seqIndex()) + " vfp=" + std::to_string(w.vfp_table_number()) + " alq=" + (w.isProducer() ? d(w.alq_value({})) : std::string("-"));
    o += " pvt=" + std::to_string(w.pvt_table_number()) + " msw=" + (w.isMultiSegment() ? "1" : "0") + " predict=" + (w.predictionMode() ? "1" : "0");
    o += " PP=" + vf::canon(w.getProductionProperties()) + " IP=" + vf::canon(w.getInjectionProperties());
    o += " econ=" + vf::canon(w.getEconLimits()) + " foam=" + vf::canon(w.getFoamProperties()) + " poly=" + vf::canon(w.getPolymerProperties()) + " brine=" + vf::canon(w.getBrineProperties());
    o += " tracer=" + vf::canon(w.getTracerProperties()) + " wvfpdp=" + vf::canon(w.getWVFPDP()) + " wvfpexp=" + vf::canon(w.getWVFPEXP()) + " wdfac=" + vf::canon(w.getWDFAC()) + " injmult=" + (w.aciveWellInjMult() ? vf::canon(w.getWellInjMult()) : std::string("-"));
    o += " pavg=" + vf::canon(w.pavg());
    o += " conns{";
    for (const auto& c : w.getConnections()) o += connection(c) + ";";
    o += "}";
    if (w.isMultiSegment()) {
        o += " segs{";
        for (const auto& s : w.getSegments()) {
            o += "s(" + std::to_string(s.segmentNumber()) + " br" + std::to_string(s.branchNumber()) + " out" + std::to_string(s.outletSegment()) + " L" + d(s.totalLength()) + " D" + d(s.depth()) + " id" + d(s.internalDiameter()) + " r" + d(s.roughness()) + " A" + d(s.crossArea()) + " V" + d(s.volume()) + " t" + std::to_string((int)s.segmentType()) + ");";
        }
        o += "}";
    }
    o += "]";
    return o;
}

inline std::string group(const Opm::Group& g) {
    std::string o = "G[" + g.name() + " parent=" + (g.is_field() ? "-" : g.parent()) + " efac=" + d(g.getGroupEfficiencyFactor()) + " tr=" + (g.getTransferGroupEfficiencyFactor() ? "1" : "0");
    o += " wells{"; for (auto& w : g.wells()) o += w + ","; o += "} groups{"; for (auto& c : g.groups()) o += c + ","; o += "}";
    o += " type=" + std::to_string((int)g.getGroupType()) + " pcm=" + std::to_string((int)g.prod_cmode());
    o += " PP=" + vf::canon(g.productionProperties()) + " IP=" + vf::canon(g.injectionProperties());
    o += " gpm=" + vf::canon(g.gpmaint()) + " topup=" + vf::canon(g.topup_phase());
    o += " pgca=" + std::string(g.productionGroupControlAvailable() ? "1" : "0") + "]";
    return o;
}

// Observation of schedule state `step` through public queries.
inline std::string sched_state(const Opm::Schedule& sched, std::size_t step) {
    std::string o;
    const auto& st = sched[step];
    o += "start=" + std::to_string(std::chrono::duration_cast<std::chrono::seconds>(st.start_time().time_since_epoch()).count());
    o += " wells:"; for (const auto& wn : sched.wellNames(step)) o += well(sched.getWell(wn, step)) + "\n";
    o += " groups:"; for (const auto& gn : sched.groupNames(step)) o += group(sched.getGroup(gn, step)) + "\n";
    o += " order:"; for (const auto& wn : st.well_order.get().names()) o += wn + ",";
    o += " udq:" + vf::canon(st.udq.get());
    o += " udq_active:" + vf::canon(st.udq_active.get());
    o += " actions:";
    for (const auto& a : st.actions.get()) {
        o += "A(" + a.name() + " max" + std::to_string(a.max_run()) + " wait" + d(a.min_wait()) + " start" + std::to_string(a.start_time()) + " id" + std::to_string(a.id()) + " kw{";
        for (const auto& kw : a) o += vf::canon(kw) + ";";
        o += "} cond{"; for (const auto& c : a.conditions()) o += vf::canon(c) + ";"; o += "});";
    }
    o += " wlist:" + vf::canon(st.wlist_manager.get());
    o += " events:" + vf::canon(st.events()) + " wgevents:" + vf::canon(st.wellgroup_events());
    o += " tuning:" + vf::canon(st.tuning()) + " nupcol:" + std::to_string(st.nupcol()) + " oilvap:" + vf::canon(st.oilvap());
    o += " msglim:" + vf::canon(st.message_limits());
    o += " rst:" + vf::canon(st.rst_config.get()) + " rpt:" + vf::canon(st.rpt_config.get()) + " rft:" + vf::canon(st.rft_config.get());
    o += " network:" + vf::canon(st.network.get()) + " netbal:" + vf::canon(st.network_balance.get());
    o += " guide_rate:" + vf::canon(st.guide_rate.get()) + " gconsale:" + vf::canon(st.gconsale.get()) + " gconsump:" + vf::canon(st.gconsump.get()) + " gecon:" + vf::canon(st.gecon.get());
    o += " glo:" + vf::canon(st.glo.get()) + " wtest:" + vf::canon(st.wtest_config.get()) + " pavg:" + vf::canon(st.pavg.get());
    o += " bhp_defaults:" + vf::canon(st.bhp_defaults.get()) + " source:" + vf::canon(st.source.get());
    o += " geo:" + vf::canon(st.geo_keywords());
    o += " next_tstep:" + vf::canon(st.next_tstep) + " target_wellpi:" + vf::canon(st.target_wellpi);
    o += " vfpprod:" + vf::canon(st.vfpprod) + " vfpinj:" + vf::canon(st.vfpinj);
    o += " bcprop:" + vf::canon(st.bcprop) + " sumthin:" + vf::canon(st.sumthin()) + " rptonly:" + (st.rptonly() ? "1" : "0");
    o += " save:" + std::string(st.save() ? "1" : "0") + " first_in_month:" + (st.first_in_month() ? "1" : "0") + " first_in_year:" + (st.first_in_year() ? "1" : "0");
    return o;
}

} // namespace obs
