// vf.hpp — shared plumbing of all /verif harnesses.
//
//  * Run        : argument parsing, sharding, counters, observation-hash set,
//                 samples, violations, result file (merged by bin/vcheck).
//  * Chooser/E1 : stateless choice explorer with deviation budget (bx).
//  * bfs/E2     : explicit-state breadth-first search over operation histories.
//
// A harness never decides exit codes or known findings itself: it records
// violations {key, what, replay} and bin/vcheck applies known_findings.json,
// writes evidence/<id>.json and replays/<id>/*.json and prints the
// VIOLATION / KNOWN-FINDING lines.
#pragma once
#include <algorithm>
#include <chrono>
#include <cstdint>
#include <cstdio>
#include <cstdlib>
#include <cstring>
#include <deque>
#include <fstream>
#include <functional>
#include <map>
#include <set>
#include <sstream>
#include <stdexcept>
#include <string>
#include <unordered_map>
#include <unordered_set>
#include <vector>
#include <fcntl.h>
#include <sys/mman.h>
#include <sys/wait.h>
#include <unistd.h>

namespace vf {

// Run fn in a forked child; returns 0 if it exited normally with status 0,
// the (negative) signal number if it was killed, or the exit status.
template <class F> int in_child(F&& fn, int timeout_s = 60) {
    pid_t pid = fork();
    if (pid == 0) { alarm(timeout_s); fn(); _exit(0); }
    int st = 0; waitpid(pid, &st, 0);
    if (WIFSIGNALED(st)) return -WTERMSIG(st);
    return WEXITSTATUS(st);
}


inline uint64_t fnv(const void* p, size_t n, uint64_t h = 1469598103934665603ull) {
    const unsigned char* c = static_cast<const unsigned char*>(p);
    for (size_t i = 0; i < n; ++i) { h ^= c[i]; h *= 1099511628211ull; }
    return h;
}
inline uint64_t fnv(const std::string& s, uint64_t h = 1469598103934665603ull) { return fnv(s.data(), s.size(), h); }

inline std::string jesc(const std::string& s) {
    std::string o; o.reserve(s.size() + 8);
    for (unsigned char c : s) {
        switch (c) {
        case '"': o += "\\\""; break;
        case '\\': o += "\\\\"; break;
        case '\n': o += "\\n"; break;
        case '\t': o += "\\t"; break;
        case '\r': o += "\\r"; break;
        default:
            if (c < 0x20 || c >= 0x7f) { char b[8]; std::snprintf(b, sizeof b, "\\u%04x", c); o += b; }
            else o += static_cast<char>(c);
        }
    }
    return o;
}
inline std::string jstr(const std::string& s) { return "\"" + jesc(s) + "\""; }

inline std::string fmt17(double d) { char b[40]; std::snprintf(b, sizeof b, "%.17g", d); return b; }
inline uint64_t dbits(double d) { uint64_t u; std::memcpy(&u, &d, 8); return u; }

struct Violation { std::string key, what, replay; };

struct Run {
    std::string id, tier = "quick", out, replay_path;
    long seed = 0;
    int shard = 0, nshards = 1;
    double deadline_s = 0;               // 0: none
    std::chrono::steady_clock::time_point t0 = std::chrono::steady_clock::now();

    uint64_t evaluations = 0;            // executions run by this shard
    uint64_t states = 0, transitions = 0, traces_validated = 0;
    uint64_t case_counter = 0;           // for mine()
    std::unordered_set<uint64_t> hashes; // distinct non-trivial observations
    std::vector<std::string> samples;    // JSON values
    std::vector<Violation> violations;
    std::map<std::string, long long> counters;   // extra coverage counters (summed over shards)
    std::map<std::string, std::string> notes;    // extra coverage strings (first shard wins)
    std::vector<std::string> assumptions;
    std::string rule;
    bool exhaustive = true;
    std::string cap_note;
    size_t max_samples = 6;
    size_t max_violations = 200;
    char* cur = nullptr;                 // shared-memory "case being executed" (read by vcheck after a crash)
    static constexpr size_t cur_size = 4096;
    void current(const std::string& c) { if (cur) { size_t n = std::min(c.size(), cur_size - 1); std::memcpy(cur, c.data(), n); cur[n] = 0; } }

    Run(const std::string& id_, int argc, char** argv) : id(id_) {
        for (int i = 1; i < argc; ++i) {
            std::string a = argv[i];
            auto next = [&]() -> std::string { if (i + 1 >= argc) throw std::runtime_error("missing value for " + a); return argv[++i]; };
            if (a == "--tier") tier = next();
            else if (a == "--seed") seed = std::atol(next().c_str());
            else if (a == "--out") out = next();
            else if (a == "--replay") replay_path = next();
            else if (a == "--deadline") deadline_s = std::atof(next().c_str());
            else if (a == "--shard") { std::string s = next(); std::sscanf(s.c_str(), "%d/%d", &shard, &nshards); }
        }
        if (!out.empty()) {
            int fd = ::open((out + ".cur").c_str(), O_RDWR | O_CREAT | O_TRUNC, 0644);
            if (fd >= 0 && ftruncate(fd, cur_size) == 0) { void* p = mmap(nullptr, cur_size, PROT_READ | PROT_WRITE, MAP_SHARED, fd, 0); if (p != MAP_FAILED) cur = static_cast<char*>(p); }
            if (fd >= 0) ::close(fd);
        }
    }
    bool quick() const { return tier != "thorough"; }
    bool thorough() const { return tier == "thorough"; }
    double elapsed() const { return std::chrono::duration<double>(std::chrono::steady_clock::now() - t0).count(); }
    bool timed_out() {
        if (deadline_s > 0 && elapsed() > deadline_s) { if (exhaustive) { exhaustive = false; cap_note += "deadline " + std::to_string(deadline_s) + "s hit; "; } return true; }
        return false;
    }
    // Sharding: every shard walks the same deterministic case sequence and
    // executes the cases whose running index is its own.
    bool mine() { return static_cast<int>((case_counter++) % nshards) == shard; }
    bool mine(uint64_t idx) const { return static_cast<int>(idx % nshards) == shard; }

    void observe(uint64_t h) { hashes.insert(h); }
    void observe(const std::string& s) { hashes.insert(fnv(s)); }
    void sample(const std::string& json) { if (samples.size() < max_samples) samples.push_back(json); }
    void sample_str(const std::string& s) { sample(jstr(s)); }
    void count(const std::string& k, long long n = 1) { counters[k] += n; }
    void violation(const std::string& key, const std::string& what, const std::string& replay_json = "{}") {
        for (auto& v : violations) if (v.key == key) { counters["violations_total"]++; return; }
        counters["violations_total"]++;
        if (violations.size() < max_violations) violations.push_back({key, what, replay_json});
    }
    int finish() {
        std::ostringstream o;
        o << "{\n \"property_id\": " << jstr(id) << ",\n \"tier\": " << jstr(tier) << ",\n \"seed\": " << seed
          << ",\n \"shard\": " << shard << ",\n \"nshards\": " << nshards
          << ",\n \"evaluations\": " << evaluations << ",\n \"states\": " << states << ",\n \"transitions\": " << transitions
          << ",\n \"traces_validated_against_impl\": " << traces_validated
          << ",\n \"exhaustive\": " << (exhaustive ? "true" : "false") << ",\n \"cap_note\": " << jstr(cap_note)
          << ",\n \"rule\": " << jstr(rule) << ",\n \"wall_s\": " << elapsed() << ",\n \"counters\": {";
        bool f = true;
        for (auto& [k, v] : counters) { o << (f ? "" : ", ") << jstr(k) << ": " << v; f = false; }
        o << "},\n \"notes\": {";
        f = true;
        for (auto& [k, v] : notes) { o << (f ? "" : ", ") << jstr(k) << ": " << jstr(v); f = false; }
        o << "},\n \"assumptions\": [";
        f = true;
        for (auto& a : assumptions) { o << (f ? "" : ", ") << jstr(a); f = false; }
        o << "],\n \"samples\": [";
        f = true;
        for (auto& s : samples) { o << (f ? "" : ",\n  ") << s; f = false; }
        o << "],\n \"violations\": [";
        f = true;
        for (auto& v : violations) {
            o << (f ? "" : ",\n  ") << "{\"key\": " << jstr(v.key) << ", \"what\": " << jstr(v.what) << ", \"replay\": " << (v.replay.empty() ? "{}" : v.replay) << "}";
            f = false;
        }
        o << "]\n}\n";
        if (out.empty()) { std::fputs(o.str().c_str(), stdout); }
        else {
            std::ofstream(out) << o.str();
            std::ofstream hf(out + ".hashes", std::ios::binary);
            for (uint64_t h : hashes) hf.write(reinterpret_cast<const char*>(&h), 8);
        }
        return 0;
    }
};

// ---------------------------------------------------------------- E1 ------
// Stateless choice explorer.  body(Chooser&) must be deterministic given the
// trail.  pick(n): all alternatives explored, free.  dev(n): alternative 0 is
// the default; any other alternative costs one unit of the deviation budget.
struct Chooser {
    struct Point { int n; int choice; bool costs; };
    std::vector<int> prefix;            // choices to replay
    std::vector<Point> trail;           // what happened in this execution
    int budget = 0, used = 0;
    size_t pos = 0;
    int take(int n, bool costs) {
        if (n <= 0) throw std::logic_error("Chooser: empty choice");
        int c = 0;
        if (pos < prefix.size()) {
            c = prefix[pos];
            if (c < 0 || c >= n) throw std::logic_error("Chooser: replayed choice out of range (body not deterministic)");
        }
        ++pos;
        if (costs && c != 0) ++used;
        trail.push_back({n, c, costs});
        return c;
    }
    int pick(int n) { return take(n, false); }
    int dev(int n) { return take(n, true); }
    // remaining budget visible to body (for pruning alternative generation only)
    std::string trail_str() const { std::string s; for (auto& p : trail) { s += std::to_string(p.choice); s += '.'; } return s; }
};

// Explores every trail with at most `budget` costly deviations.  `shard_ok(k)`
// decides whether the k-th complete execution is executed by this process
// (the enumeration itself is replay-free for skipped ones only when the body
// is cheap; here every shard enumerates, but only runs `body` fully when
// `run` says so — bodies call c.pick() before doing expensive work and may
// consult `skip` to bail out early).
template <class Body>
uint64_t explore(Body&& body, int budget, const std::function<bool()>& stop = {}) {
    uint64_t execs = 0;
    std::vector<int> prefix;
    while (true) {
        if (stop && stop()) break;
        Chooser c; c.prefix = prefix; c.budget = budget;
        body(c);
        ++execs;
        // backtrack: find last point that can be advanced within budget
        std::vector<Chooser::Point>& t = c.trail;
        int i = static_cast<int>(t.size()) - 1;
        // deviations used before each point
        std::vector<int> usedBefore(t.size() + 1, 0);
        for (size_t k = 0; k < t.size(); ++k) usedBefore[k + 1] = usedBefore[k] + ((t[k].costs && t[k].choice != 0) ? 1 : 0);
        for (; i >= 0; --i) {
            int nc = t[i].choice + 1;
            if (nc >= t[i].n) continue;
            int cost = usedBefore[i] + (t[i].costs ? 1 : 0);   // nc != 0 always
            if (cost > budget) continue;
            break;
        }
        if (i < 0) break;
        prefix.clear();
        for (int k = 0; k < i; ++k) prefix.push_back(t[k].choice);
        prefix.push_back(t[i].choice + 1);
    }
    return execs;
}

// ---------------------------------------------------------------- E2 ------
// Explicit-state BFS where a state is the event history that reaches it.
//   nevents            : size of the event alphabet
//   step(hist) -> optional key: builds the real object from scratch by
//                 replaying hist, checks invariants / step relation (it is
//                 given the full history so it can compare with the parent),
//                 returns canonical key; empty string => event not enabled.
struct BfsStats { uint64_t states = 0, transitions = 0, maxdepth = 0, frontier_left = 0; };
template <class Step>
BfsStats bfs(int nevents, int maxdepth, Step&& step, const std::function<bool()>& stop = {}) {
    BfsStats st;
    std::unordered_set<std::string> seen;
    std::deque<std::vector<int>> frontier;
    {
        std::vector<int> h;
        std::string k = step(h);
        seen.insert(k); st.states = 1; frontier.push_back(h);
    }
    while (!frontier.empty()) {
        if (stop && stop()) { st.frontier_left = frontier.size(); break; }
        std::vector<int> h = frontier.front(); frontier.pop_front();
        if (static_cast<int>(h.size()) >= maxdepth) continue;
        for (int e = 0; e < nevents; ++e) {
            std::vector<int> h2 = h; h2.push_back(e);
            std::string k = step(h2);
            if (k.empty()) continue;
            ++st.transitions;
            if (seen.insert(k).second) {
                ++st.states;
                st.maxdepth = std::max<uint64_t>(st.maxdepth, h2.size());
                frontier.push_back(std::move(h2));
            }
        }
    }
    return st;
}

inline std::string join_ints(const std::vector<int>& v, const char* sep = ",") {
    std::string s; for (size_t i = 0; i < v.size(); ++i) { if (i) s += sep; s += std::to_string(v[i]); } return s;
}

} // namespace vf
