SPECIFICATION Spec
CONSTANTS
  MaxRun = 3
  MaxWait = 3
  StartOff = 2
  MaxDt = 2
  MaxRedef = 2
INVARIANT TypeOK
INVARIANT CountInv
INVARIANT WaitInv
INVARIANT StartInv
PROPERTY RunStep
CHECK_DEADLOCK FALSE
