------------------------------ MODULE C18_trigger ------------------------------
(* ACTIONX triggering state machine (property C18, part b).

   One action with parameters
       mr  maximum number of runs        (0..MaxRun)
       mw  minimum wait between runs     (0..MaxWait days)
       so  start time offset from t0     (0 or StartOff days)
   is driven by the simulator loop: at every evaluation the clock advances by
   dt days (0..MaxDt) and the condition evaluates to c; the action runs iff it
   is *ready* (count below mr, start time reached, min wait elapsed since the
   previous run) and c holds.

   Time is abstracted to what decides the future:
       rc   number of runs so far
       dl   days since the last run, capped at MaxWait   (-1: never ran)
       el   days since t0, capped at StartOff
       gap  days between the two most recent runs, capped at MaxWait (-1: < 2 runs)
   The caps are exact because ready() only compares dl with mw <= MaxWait and
   el with so <= StartOff.

   Every edge of the reachable graph is replayed on the real
   Actions::pending / ActionX::ready / ActionX::eval / State::add_run by
   harness/C18_actionx --edges (see harness/C18_tla.py).                      *)
EXTENDS Integers

CONSTANTS MaxRun, MaxWait, StartOff, MaxDt

VARIABLES mr, mw, so, rc, dl, el, gap

vars == <<mr, mw, so, rc, dl, el, gap>>

Min(a, b) == IF a < b THEN a ELSE b

TypeOK == /\ mr \in 0..MaxRun /\ mw \in 0..MaxWait /\ so \in {0, StartOff}
          /\ rc \in 0..MaxRun /\ dl \in -1..MaxWait /\ el \in 0..StartOff
          /\ gap \in -1..MaxWait

Init == /\ mr \in 0..MaxRun /\ mw \in 0..MaxWait /\ so \in {0, StartOff}
        /\ rc = 0 /\ dl = -1 /\ el = 0 /\ gap = -1

Ready(dlx, elx) == /\ rc < mr
                   /\ elx >= so
                   /\ (dlx = -1 \/ dlx >= mw)

Step(dt, c) ==
    LET elx == Min(el + dt, StartOff)
        dlx == IF dl = -1 THEN -1 ELSE Min(dl + dt, MaxWait)
    IN  /\ el' = elx
        /\ IF Ready(dlx, elx) /\ c
             THEN /\ rc' = rc + 1 /\ dl' = 0 /\ gap' = dlx
             ELSE /\ rc' = rc /\ dl' = dlx /\ gap' = gap
        /\ UNCHANGED <<mr, mw, so>>

(* the TLC graph dump labels every edge with "Step(dt,c)" *)
Next == \E dt \in 0..MaxDt, c \in BOOLEAN : Step(dt, c)

Spec == Init /\ [][Next]_vars

(* the three limits of the property text *)
CountInv == rc <= mr                              \* never more often than its maximum count
WaitInv  == gap = -1 \/ gap >= mw                 \* never sooner than min wait after the previous run
StartInv == rc > 0 => el >= so                    \* never before its start time
(* step property: the count moves by at most one, and only on a step that
   satisfies all three limits.  ("A ready action whose condition holds does
   run" is the THEN branch of Step itself; it is checked against the
   implementation by the edge replay, on every T-edge.)                    *)
RunStep == [][/\ rc' \in {rc, rc + 1}
              /\ rc' = rc + 1 => (rc < mr /\ el' >= so /\ dl' = 0 /\ (gap' = -1 \/ gap' >= mw))]_vars
================================================================================
