------------------------------ MODULE C18_trigger ------------------------------
(* ACTIONX triggering state machine (property C18, part b).

   One action name with parameters
       mr  maximum number of runs        (0..MaxRun)
       mw  minimum wait between runs     (0..MaxWait days)
       so  start time offset             (0..StartOff days after the definition)
   is driven by the simulator loop: at every evaluation the clock advances by
   dt days (0..MaxDt) and the condition evaluates to c; the action runs iff it
   is *ready* (count below mr, start time reached, min wait elapsed since the
   previous run) and c holds.

   REDEFINITION: the schedule may define the same ACTIONX name again (at most
   MaxRedef times, variants RP[k] = <<mr, mw, so>>).  The new definition is a
   new action (name + definition index id): count 0, no previous run, start
   time = time of the redefinition + so.  The run records of the earlier
   definitions stay in the action state but must not influence the new one.

   Time is abstracted to what decides the future:
       rc   number of runs of the current definition
       dl   days since its last run, capped at MaxWait   (-1: never ran)
       el   days since the current definition was made, capped at StartOff
       gap  days between its two most recent runs, capped at MaxWait (-1: < 2 runs)
       id   definition index (number of redefinitions so far)
       od   GHOST (history variable, decides nothing in this model): days since
            the last run of the oldest earlier definition that ever ran, capped
            at MaxWait (-1: none).  It makes the BFS-tree paths used by the
            replay pass through histories in which earlier definitions have run.
   The caps are exact because ready() only compares dl with mw <= MaxWait and
   el with so <= StartOff.

   Every edge of the reachable graph is replayed on the real
   Actions::add / Actions::pending / ActionX::ready / ActionX::eval /
   State::add_run by harness/C18_actionx --edges (see harness/C18_tla.py).    *)
EXTENDS Integers

CONSTANTS MaxRun, MaxWait, StartOff, MaxDt, MaxRedef

VARIABLES mr, mw, so, rc, dl, el, gap, id, od

vars == <<mr, mw, so, rc, dl, el, gap, id, od>>

(* redefinition variants <<max_run, min_wait, start offset>>; the same table is RP[] in harness/C18_actionx.cpp *)
RP == << <<2, 1, 0>>, <<3, 2, 1>>, <<1, 0, 0>> >>

Min(a, b) == IF a < b THEN a ELSE b

TypeOK == /\ mr \in 0..MaxRun /\ mw \in 0..MaxWait /\ so \in 0..StartOff
          /\ rc \in 0..MaxRun /\ dl \in -1..MaxWait /\ el \in 0..StartOff
          /\ gap \in -1..MaxWait /\ id \in 0..MaxRedef /\ od \in -1..MaxWait

Init == /\ mr \in 0..MaxRun /\ mw \in 0..MaxWait /\ so \in {0, StartOff}
        /\ rc = 0 /\ dl = -1 /\ el = 0 /\ gap = -1 /\ id = 0 /\ od = -1

Ready(dlx, elx) == /\ rc < mr
                   /\ elx >= so
                   /\ (dlx = -1 \/ dlx >= mw)

Step(dt, c) ==
    LET elx == Min(el + dt, StartOff)
        dlx == IF dl = -1 THEN -1 ELSE Min(dl + dt, MaxWait)
    IN  /\ el' = elx
        /\ IF Ready(dlx, elx) /\ c
             THEN /\ rc' = rc + 1 /\ dl' = 0 /\ gap' = dlx
             ELSE /\ rc' = rc /\ dl' = dlx /\ gap' = gap
        /\ od' = (IF od = -1 THEN -1 ELSE Min(od + dt, MaxWait))
        /\ UNCHANGED <<mr, mw, so, id>>

Redefine(k) ==
    /\ id < MaxRedef
    /\ mr' = RP[k][1] /\ mw' = RP[k][2] /\ so' = RP[k][3]
    /\ rc' = 0 /\ dl' = -1 /\ el' = 0 /\ gap' = -1
    /\ id' = id + 1
    /\ od' = (IF od # -1 THEN od ELSE dl)

(* the TLC graph dump labels every edge with "Step(dt,c)" or "Redefine(k)" *)
Next == \/ \E dt \in 0..MaxDt, c \in BOOLEAN : Step(dt, c)
        \/ \E k \in 1..3 : Redefine(k)

Spec == Init /\ [][Next]_vars

(* the three limits of the property text, per definition *)
CountInv == rc <= mr                              \* never more often than its maximum count
WaitInv  == gap = -1 \/ gap >= mw                 \* never sooner than min wait after the previous run
StartInv == rc > 0 => el >= so                    \* never before its start time
(* step property: within a definition the count moves by at most one, and only
   on a step that satisfies all three limits; a redefinition starts at 0.
   ("A ready action whose condition holds does run" is the THEN branch of Step
   itself; it is checked against the implementation by the edge replay, on
   every T-edge.)                                                           *)
RunStep == [][/\ (id' = id => rc' \in {rc, rc + 1})
              /\ (id' # id => (rc' = 0 /\ dl' = -1))
              /\ ((id' = id /\ rc' = rc + 1) => (rc < mr /\ el' >= so /\ dl' = 0 /\ (gap' = -1 \/ gap' >= mw)))]_vars
================================================================================
