------------------------------ MODULE C08_restart ------------------------------
(* Unified restart file as a history of report steps (property C08).

   The file is a sequence of <<step, version>> entries.  Writing report step s
   (payload version v) keeps every entry with a smaller step, drops the others
   and appends <<s, v>> - this is what OutputStream::Restart does through
   ERst::restartStepWritePosition (lower_bound) + resize_file + append.

   `last` records the parameters of the action that led to the state, so that
   every edge of the dumped graph can be replayed on the implementation by
   harness/C08_restart --edges (see harness/C08_tla.py): the implementation
   twin of the source state is built by writing its entries in order, the
   action is applied with the real writer, and the resulting file must be
   byte-identical to the fresh file of the target state.                     *)
EXTENDS Integers, Sequences

CONSTANTS N

VARIABLES file, last
vars == <<file, last>>

Steps == 0..N
Vers  == {0, 1}

Keep(f, s) == SelectSeq(f, LAMBDA e : e[1] < s)

TypeOK == /\ file \in Seq(Steps \X Vers)
          /\ last \in (Steps \X Vers) \cup {<<-1, -1>>}

Init == file = <<>> /\ last = <<-1, -1>>

Write(s, v) == /\ file' = Append(Keep(file, s), <<s, v>>)
               /\ last' = <<s, v>>

Next == \E s \in Steps, v \in Vers : Write(s, v)

Spec == Init /\ [][Next]_vars

(* strictly increasing report steps *)
Increasing == \A i \in 1..(Len(file) - 1) : file[i][1] < file[i + 1][1]
(* the step just written is last *)
WrittenIsLast == last[1] >= 0 => (Len(file) > 0 /\ file[Len(file)] = last)
(* every step smaller than the one just written is preserved, in place *)
PrefixPreserved == [][\A i \in 1..Len(file) :
                         file[i][1] < last'[1] => (i <= Len(file') /\ file'[i] = file[i])]_vars
================================================================================
