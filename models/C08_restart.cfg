CONSTANT N = 3
SPECIFICATION Spec
INVARIANT TypeOK
INVARIANT Increasing
INVARIANT WrittenIsLast
PROPERTY PrefixPreserved
